"""C13, LayerRule part: call histories over the LayerRule vocabulary."""
from __future__ import annotations

import itertools

from harness import layers, rules
from harness.props import c13 as c13mod

ARCH = [("A", "list", ["r.a"]), ("B", "str", "r.b"), ("C", "regex", r"r\.c.*"), ("G", "regex", r"zz.*")]   # G: a regex layer matching nothing
ARCH_PENDING = [("A", "list", ["r.a"]), ("P", "list", [])]

LSYMS = {
    "BO": ("based_on", ARCH), "LT": ("layers_that",),
    "NA": ("named", "A"), "NB": ("named", "B"), "NC": ("named", "C"),
    "NLAB": ("named_list", ["A", "B"]), "NLB": ("named_list", ["B"]),
    "NU": ("named", "U"),                       # layer that was never defined
    "NLAU": ("named_list", ["A", "U"]),         # a batch with one defined and one never-defined layer
    "NLCG": ("named_list", ["C", "G"]),         # two regex layers, one of which matches no module
    "NG": ("named", "G"),
    "AP": ("assert_applies",),                  # the layer rule is evaluated in the middle of the history (outcome ignored)
    "SH": ("should",), "SO": ("should_only",), "SN": ("should_not",),
    "AC": ("access_layers_that",), "BA": ("be_accessed_by_layers_that",),
    "ACX": ("access_layers_except_layers_that",), "BAX": ("be_accessed_by_layers_except_layers_that",),
    "AA": ("access_any_layer",), "BAA": ("be_accessed_by_any_layer",),
}
CORE = ["BO", "LT", "NA", "NB", "NLB", "NU", "SH", "SN", "AC", "BAX", "AA"]
DEFINED = {"A": True, "B": True, "C": True, "U": False, "G": True}
GHOST_SYMS = {"NLCG", "NG"}   # name -> defined (all defined layers here have modules)


def py_layer_spec(hist) -> bool:
    arch = started = False
    side = None
    subj = obj = False
    verbs = set()
    imp = anything = False
    for s in hist:
        c = LSYMS[s]
        k = c[0]
        if k == "assert_applies":
            continue
        if k == "based_on":
            if arch:
                return False
            arch = True
        elif k == "layers_that":
            if not arch:
                return False
            started, side, subj, obj, verbs, imp, anything = True, "S", False, False, set(), False, False
        else:
            if not started:
                return False
            if k in ("named", "named_list"):
                names = [c[1]] if k == "named" else c[1]
                if not subj and k == "named_list":
                    return False
                if subj and side == "S":
                    return False
                if not all(DEFINED.get(n, False) for n in names):
                    return False
                if side == "S":
                    subj = True
                else:
                    obj = True
            elif k in ("should", "should_only", "should_not"):
                verbs.add(k)
            else:
                imp, side = True, "O"
                if k.endswith("any_layer"):
                    anything = True
    if not started or not subj or not verbs or not imp or not (obj or anything):
        return False
    if "should_not" in verbs and len(verbs) > 1:
        return False
    if anything and verbs != {"should_not"}:
        return False
    return True


def ghost_in_effect(hist) -> bool:
    """Is a regex layer that matches no module the subject, or among the objects in effect (an 'any layer' rule has no object list)?"""
    side, subj, obj, anything = None, None, None, False
    for s in hist:
        k = LSYMS[s][0]
        if k == "layers_that":
            side, subj, obj, anything = "S", None, None, False
        elif k in ("named", "named_list"):
            if side == "S":
                subj = s
            elif side == "O":
                obj = s
        elif k not in ("based_on", "should", "should_only", "should_not", "assert_applies"):
            side = "O"
            if k.endswith("any_layer"):
                anything = True
    return subj in GHOST_SYMS or (not anything and obj in GHOST_SYMS)


def run_layer_histories(ctx):
    hists = []
    maxlen = 5 if ctx.quick else 6
    for k in range(maxlen + 1):
        if k <= 4:
            hists.extend(itertools.product(CORE, repeat=k))
    allsyms = list(LSYMS)
    for _ in range(6000 if ctx.quick else 60000):
        k = ctx.rng.randint(5, 8)
        # biased towards well-formed prefixes so that complete chains occur
        h = ["BO", "LT"] if ctx.rng.random() < 0.7 else []
        h += [ctx.rng.choice(allsyms) for _ in range(k - len(h))]
        hists.append(tuple(h))
    chains = [["BO", "LT", "NA", "SH", "AC", "NB"], ["BO", "LT", "NA", "SN", "BAX", "NLAB"], ["BO", "LT", "NC", "SO", "AC", "NLB"],
              ["BO", "LT", "NA", "SN", "AA"], ["BO", "LT", "NB", "SN", "BAA"], ["BO", "LT", "NA", "SO", "ACX", "NC"],
              ["BO", "LT", "NA", "SH", "AC", "NLCG"], ["BO", "LT", "NG", "SN", "AC", "NB"],
              ["BO", "LT", "NB", "SN", "AC", "NLAU"], ["BO", "LT", "NB", "SH", "BAX", "NLAU"],
              ["BO", "LT", "NA", "SN", "AC", "NB", "AP", "SH"], ["BO", "LT", "NA", "SH", "AC", "NB", "AP", "SN"], ["BO", "LT", "NA", "SN", "AA", "AP", "SO"]]
    for ch in chains:
        hists.append(tuple(ch))
        n = len(ch)
        for i in range(n):
            hists.append(tuple(ch[:i] + ch[i + 1:]))
            hists.append(tuple(ch[:i + 1] + ch[i:]))
            if i + 1 < n:
                hists.append(tuple(ch[:i] + [ch[i + 1], ch[i]] + ch[i + 2:]))
    nodes, edges = c13mod.NODES, c13mod.EDGES
    chunk = 2000
    for i in range(0, len(hists), chunk):
        part = hists[i:i + chunk]
        res, pair = layers.eval_layer_histories(nodes, edges, [[LSYMS[s] for s in h] for h in part])
        ctx.selfcheck_pairs.append(pair)
        for h, (io, mo) in zip(part, res):
            ctx.evaluations += 1
            acc = py_layer_spec(h)
            ctx.stat("layer_hist_" + ("accepted" if acc else "rejected"))
            case = dict(layer_history=list(h), impl=[io[0], io[1][:200]], model=[mo[0], str(mo[1])[:200]])
            if not acc and io[0] in ("PASS", "FAIL"):
                ctx.violation(case, f"incomplete/contradictory LayerRule history {list(h)} produced the verdict {io[0]}", {"kind": "layer_history"})
                continue
            if acc and io[0] in ("PASS", "FAIL") and ghost_in_effect(h):
                ctx.violation(case, f"LayerRule history {list(h)} names a regex layer that matches no module, yet produced the verdict {io[0]}", {"kind": "layer_no_match"})
                continue
            if not layers.same_layer_outcome(io, mo):
                ctx.disagreement(case, f"model and implementation differ on LayerRule history {list(h)}: impl={io[0]} model={mo[0]}")
            if acc:
                ctx.mark_nontrivial(("lh", h))
    ctx.stat("layer_histories", len(hists))
