"""C16 — layer definitions are well-formed.  Exhaustive builder call sequences
on the real LayeredArchitecture / LayerRule and on the model."""
from __future__ import annotations

import itertools
import json
from multiprocessing import Pool

from harness import common, layers, rules
from harness.common import Ctx, NCPU

LA_SYMS = {
    "LA": ("layer", "A"), "LB": ("layer", "B"), "LC": ("layer", "C"),
    "Sa": ("str", "r.a"), "Sb": ("str", "r.b"),
    "La": ("list", ["r.a"]), "Lb": ("list", ["r.b"]), "Lab": ("list", ["r.a", "r.b"]),
    "RX": ("regex", r"r\.c.*"), "WL": ("with_layer",),
}
EXTRA = {"LD": ("layer", "D"), "Sx": ("str", "r.ab"), "Le": ("list", []), "Laa": ("list", ["r.a", "r.a"]), "Sc": ("str", "b"),
         "PK": ("peek",)}      # observation of the architecture in the middle of its definition (never rejected, never changes anything)
ALL = {**LA_SYMS, **EXTRA}
# the same symbols under names that are awkward in message templates (braces, percent signs, blanks) - an offending call
# must still be rejected with a configuration error whose construction does not trip over the name
ALT = {"LA": ("layer", "{core}"), "LB": ("layer", "%s {0}"), "LC": ("layer", "c{}"), "LD": ("layer", "D%d"),
       "Sa": ("str", "r.{a}"), "Sb": ("str", "r.%b"), "La": ("list", ["r.{a}"]), "Lb": ("list", ["r.%b"]), "Lab": ("list", ["r.{a}", "r.%b"]),
       "RX": ("regex", r"r\.c\d{2}.*"), "WL": ("with_layer",), "Sx": ("str", "r.{a}{b}"), "Le": ("list", []), "Laa": ("list", ["r.{a}", "r.{a}"]),
       "Sc": ("str", "%b"), "PK": ("peek",)}
# ... and with the empty string as a layer name and as a module name (the API accepts both)
EMPTY = dict(ALL)
EMPTY.update({"LA": ("layer", ""), "Sa": ("str", ""), "La": ("list", [""]), "Lab": ("list", ["", ALL["Sb"][1]]), "Laa": ("list", ["", ""])})
TABLES = {"plain": ALL, "awkward": ALT, "empty": EMPTY}


def la_spec(hist, table=None):
    """Documented rules: -> (index of the first rejected call or len(hist), accepted listing)."""
    table = table or ALL
    arch = []          # list of [name, modules or None(pending)]
    for i, s in enumerate(hist):
        c = table[s]
        pending = [x for x in arch if not x[1]]
        if c[0] in ("with_layer", "peek"):
            continue
        if c[0] == "layer":
            if pending or any(x[0] == c[1] for x in arch):
                return i, arch
            arch.append([c[1], []])
        else:
            if len(pending) != 1:
                return i, arch
            if c[0] == "regex":
                pending[0][1] = [c[1]]
            else:
                mods = [c[1]] if c[0] == "str" else list(c[1])
                existing = {m for x in arch for m in x[1]}
                if set(mods) & existing:
                    return i, arch
                pending[0][1] = mods
    return len(hist), arch


def la_spec_lenient(hist, table):
    """Documented rules, the caller going on after rejections: -> (accepted flags, listing)"""
    arch, flags = [], []
    for s in hist:
        c = table[s]
        if c[0] == "peek":
            continue
        pending = [x for x in arch if not x[1]]
        ok = True
        if c[0] == "with_layer":
            pass
        elif c[0] == "layer":
            if pending or any(x[0] == c[1] for x in arch):
                ok = False
            else:
                arch.append([c[1], []])
        else:
            if len(pending) != 1:
                ok = False
            elif c[0] == "regex":
                pending[0][1] = [c[1]]
            else:
                mods = [c[1]] if c[0] == "str" else list(c[1])
                if set(mods) & {m for x in arch for m in x[1]}:
                    ok = False
                else:
                    pending[0][1] = mods
        flags.append(ok)
    return flags, arch


def _lenient_job(args):
    """histories continued after rejected calls: which calls are accepted and what the object defines at the end,
    implementation vs documented rules vs model (fn 37)"""
    hists, tname = args
    T = TABLES[tname]
    enc = rules.Enc()
    lenc = layers.LEnc(enc)
    wire = [37, [[lenc.la_call(T[s]) for s in h if s != "PK"] for h in hists]]
    res = common.model_run([wire])[0]
    viol, disag = [], []
    nontriv = 0
    for h, m in zip(hists, res):
        flags, fams, listing = layers.run_la_impl_lenient([T[s] for s in h])
        sflags, sarch = la_spec_lenient(h, T)
        mflags, march = [bool(x) for x in m[0]], lenc.dec_larch(m[1])
        case = dict(la_history=list(h), names=tname, lenient=True, calls=[list(T[x]) for x in h], impl_accepted=flags, impl_errors=fams, impl_listing=listing,
                    documented_accepted=sflags, documented_listing=[[a, b] for a, b in sarch])
        if flags != sflags:
            i = next(k for k, (x, y) in enumerate(zip(flags, sflags)) if x != y)
            viol.append((case, f"LayeredArchitecture history {list(h)} (caller goes on after rejections): call #{i} is {'accepted' if flags[i] else 'rejected'}, "
                               f"the documented rules {'accept' if sflags[i] else 'reject'} it", {"kind": "la_history_lenient"}))
            continue
        if any(f != "ConfigError" for f in fams):
            viol.append((case, f"LayeredArchitecture history {list(h)}: a rejected call raised {[f for f in fams if f != 'ConfigError'][0]}, not a configuration error", {"kind": "la_history_lenient"}))
            continue
        if [(a, list(b)) for a, b in listing] != [(a, list(b)) for a, b in sarch]:
            viol.append((case, f"LayeredArchitecture history {list(h)} (caller goes on after rejections): the object defines {listing}, the accepted calls supplied {sarch}", {"kind": "la_listing_lenient"}))
            continue
        if mflags != flags or [(a, list(b)) for a, b in march] != [(a, list(b)) for a, b in listing]:
            disag.append((case, f"model and implementation differ on the lenient LayeredArchitecture history {list(h)}"))
        if not all(flags) and any(flags[i] for i in range(len(flags)) if not all(flags[:i])):
            nontriv += 1          # something was accepted after a rejection
    return dict(n=len(hists), nontrivial=nontriv, stats={"lenient_histories": len(hists)}, violations=viol, disagreements=disag, pairs=[], samples=[])


def _job(args):
    hists, tname = args
    ALL = TABLES[tname]
    enc = rules.Enc()
    lenc = layers.LEnc(enc)
    wire = [15, [[lenc.la_call(ALL[s]) for s in h if s != "PK"] for h in hists]]     # the model has no observation call: it sees the history without them
    res = common.model_run([wire])[0]
    viol, disag, stats = [], [], {}
    nontriv = 0
    runs = [(h, m, False) for h, m in zip(hists, res)]
    # ... and every third history with ONE caller-owned list object refilled for each list call and overwritten afterwards
    runs += [(h, m, "recycle") for i, (h, m) in enumerate(zip(hists, res)) if i % 3 == 1 and any(ALL[s][0] == "list" for s in h)]
    # the same histories with every module name / pattern passed as a str-Enum-like member (a str whose str() is not its value):
    # the plain-name table only, every third history
    if tname == "plain":
        runs += [(h, m, True) for i, (h, m) in enumerate(zip(hists, res)) if i % 3 == 0]
    for h, m, member in runs:
        k, fam, listing, _ = layers.run_la_impl([ALL[s] for s in h], member_names=member is True, recycle_lists=member == "recycle", by_index=tname == "empty")
        if member == "recycle":
            stats["histories_with_a_recycled_list_argument"] = stats.get("histories_with_a_recycled_list_argument", 0) + 1
        elif member:
            stats["histories_with_str_enum_like_names"] = stats.get("histories_with_str_enum_like_names", 0) + 1
        sk, sarch = la_spec(h, ALL)
        mk, march = m[0], lenc.dec_larch(m[1])
        stats["names_" + tname] = stats.get("names_" + tname, 0) + 1
        stats["accepted_all" if k == len(h) else "rejected"] = stats.get("accepted_all" if k == len(h) else "rejected", 0) + 1
        case = dict(la_history=list(h), names=tname, member_names=member, calls=[list(ALL[x]) for x in h], impl_accepted_calls=k, impl_error=fam, impl_listing=listing, documented_accepted_calls=sk,
                    documented_listing=[[a, b] for a, b in sarch], model_accepted_calls=mk)
        if k != sk:
            what = (f"call #{k} ({h[k]}) rejected although the documented rules accept it" if k < sk else
                    f"call #{sk} ({h[sk]}) accepted although it violates the documented rules")
            viol.append((case, f"LayeredArchitecture history {list(h)}: {what}", {"kind": "la_history"}))
            continue
        if k < len(h) and fam != "ConfigError":
            viol.append((case, f"LayeredArchitecture history {list(h)}: offending call raised {fam}, not a configuration error", {"kind": "la_history"}))
            continue
        if [(a, list(b)) for a, b in listing] != [(a, list(b)) for a, b in sarch]:
            viol.append((case, f"LayeredArchitecture history {list(h)}: accepted definition lists {listing}, supplied {sarch}", {"kind": "la_listing"}))
            continue
        k_model = len([s for s in h[:k] if s != "PK"])
        if mk != k_model or [(a, list(b)) for a, b in march] != [(a, list(b)) for a, b in listing]:
            disag.append((case, f"model and implementation differ on LayeredArchitecture history {list(h)}"))
        if k == len(h) and len(listing) >= 1:
            nontriv += 1
    return dict(n=len(runs), nontrivial=nontriv, stats=stats, violations=viol, disagreements=disag,
                pairs=[([15, wire[1][:20]], res[:20])], samples=[dict(history=list(hists[len(hists) // 3]))])


def run(ctx: Ctx):
    order = list(LA_SYMS)
    hists = []
    maxlen = 5 if ctx.quick else 6
    for k in range(maxlen + 1):
        hists.extend(itertools.product(order, repeat=k))
    allsyms = list(ALL)
    for _ in range(20000 if ctx.quick else 200000):
        k = ctx.rng.randint(6, 10)
        hists.append(tuple(ctx.rng.choice(allsyms) for _ in range(k)))
    # a regex layer between two layers that are given the same module; four layers
    for seqx in (["LA", "Sa", "LB", "RX", "LC", "Sa"], ["LA", "La", "LB", "RX", "LC", "Lab"], ["LA", "Sa", "LB", "RX", "LC", "Sb", "LD", "Sa"],
                 ["LA", "RX", "LB", "Sa", "LC", "Sa"], ["LA", "Sa", "LB", "Sb", "LC", "RX", "LD", "Lab"]):
        for cut in range(1, len(seqx) + 1):
            hists.append(tuple(seqx[:cut]))
    for base in (["LA", "LB"], ["LA", "Sa", "LB", "Sb"], ["LA", "La", "LB", "Lb"], ["LA", "RX", "LB", "Sa"], ["LA", "Sa", "LB", "Sa"], ["LA", "LA"]):
        for i in range(len(base) + 1):
            hists.append(tuple(base[:i] + ["PK"] + base[i:]))
            for j in range(i, len(base) + 1):
                hists.append(tuple(base[:i] + ["PK"] + base[i:j] + ["PK"] + base[j:]))
    chunk = 4000
    jobs = [(hists[i:i + chunk], "plain") for i in range(0, len(hists), chunk)]
    awkward = [h for h in hists if len(h) <= 3] + hists[-(20000 if ctx.quick else 200000) // 4:]
    jobs += [(awkward[i:i + chunk], "awkward") for i in range(0, len(awkward), chunk)]
    jobs += [(awkward[i:i + chunk], "empty") for i in range(0, len(awkward), chunk)]
    with Pool(NCPU) as pool:
        rs = pool.map(_job, jobs, chunksize=1)
        # the caller catches rejections and goes on: all histories up to length 5 (quick: 4) with at least ... any, plus a sample of the random ones
        len_h = [h for h in hists if len(h) <= (4 if ctx.quick else 5)] + hists[-3000:]
        rs += pool.map(_lenient_job, [(len_h[i:i + chunk], "plain") for i in range(0, len(len_h), chunk)] + [(len_h[-3000:], "awkward")], chunksize=1)
    for r in rs:
        rules.merge_into(ctx, r)
    # LayerRule part: call-chain prefixes (shared with C13's layer histories): architecture first, exactly one subject layer
    from harness.props import c13_layer
    before = len(ctx.violations)
    c13_layer.run_layer_histories(ctx)
    for v in ctx.violations[before:]:
        v["what"] = "[LayerRule builder] " + v["what"]
    ctx.exhaustive = True
    ctx.stat("la_histories", len(hists))
    ctx.rule = (f"LayeredArchitecture: all call sequences of length <= {maxlen} over 10 symbols (three layer names, two module names as str / list / two-element list, a regex, with_layer), "
                "exhaustive, plus random longer ones over 15 symbols (an observation of the half-defined architecture - a LayerRule based on it, layer_mapping and str read - inserted anywhere, third layer, name containing another name's characters, empty list, duplicate inside one list); "
                "the same histories with the caller going on after every rejected call (accepted flags and final definition, all histories up to length 4 / 5 and the random ones); per history: index of the first rejected call, its error family, and str(architecture) parsed back, compared with the documented rules and with the model; "
                "LayerRule: all chains up to length 4 over 11 symbols + random and mutated chains (architecture first, exactly one subject layer); "
                "non-trivial = fully accepted histories defining at least one layer")


def replay(ctx: Ctx, path: str) -> int:
    r = json.load(open(path))
    c = r["case"]
    if "la_history" not in c:
        print("replay kind not supported:", json.dumps(c)[:300])
        return 2
    h = c["la_history"]
    table = TABLES[c.get("names", "plain")]
    k, fam, listing, _ = layers.run_la_impl([table[s] for s in h], member_names=c.get("member_names") is True, recycle_lists=c.get("member_names") == "recycle", by_index=c.get("names") == "empty")
    sk, sarch = la_spec(h, table)
    if k < len(h) and fam != "ConfigError":
        print(h, "offending call raised", fam)
        print(f"VIOLATION property=C16 replay={path}")
        return 1
    print(h, "impl accepted", k, fam, listing, "documented", sk, sarch)
    if k != sk or [(a, list(b)) for a, b in listing] != [(a, list(b)) for a, b in sarch]:
        print(f"VIOLATION property=C16 replay={path}")
        return 1
    return 0
