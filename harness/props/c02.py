"""C02 — every import statement in a scanned file becomes an import edge, only those.
Statement-list positions are enumerated from the running interpreter's grammar (ast node
classes with `stmt*` fields), nested up to depth 3, unparsed to source, re-parsed to confirm
the import sits where intended, written to a real file and scanned."""
from __future__ import annotations

import ast
import json
import random
import re
from multiprocessing import Pool

from harness import common, rules, scan
from harness.common import Ctx, NCPU


# --------------------------------------------------------------------------
# grammar positions


def grammar_positions():
    """[(node class name, field)] for every `stmt*` field the grammar offers."""
    out = []
    seen = set()

    def rec(cls):
        for sub in cls.__subclasses__():
            if sub.__name__ in seen:
                continue
            seen.add(sub.__name__)
            doc = sub.__doc__ or ""
            for m in re.finditer(r"stmt\*\s+(\w+)", doc):
                out.append((sub.__name__, m.group(1)))
            rec(sub)
    rec(ast.AST)
    return sorted(set(out))


def _name(n="x"):
    return ast.Name(id=n, ctx=ast.Load())


def _args():
    return ast.arguments(posonlyargs=[], args=[], vararg=None, kwonlyargs=[], kw_defaults=[], kwarg=None, defaults=[])


def build_container(cls, field, inner):
    """An ast statement holding `inner` (list of stmts) at position (cls, field); None if this builder does not know cls."""
    P = [ast.Pass()]
    fill = lambda f: inner if f == field else P
    opt = lambda f: inner if f == field else []
    extra = {}
    if hasattr(ast, "TypeAlias"):
        extra = {"type_params": []}
    if cls in ("FunctionDef", "AsyncFunctionDef"):
        return getattr(ast, cls)(name="f", args=_args(), body=fill("body"), decorator_list=[], returns=None, type_comment=None, **extra)
    if cls == "ClassDef":
        return ast.ClassDef(name="K", bases=[], keywords=[], body=fill("body"), decorator_list=[], **extra)
    if cls in ("For", "AsyncFor"):
        return getattr(ast, cls)(target=ast.Name(id="i", ctx=ast.Store()), iter=_name("y"), body=fill("body"), orelse=opt("orelse"), type_comment=None)
    if cls == "While":
        return ast.While(test=_name(), body=fill("body"), orelse=opt("orelse"))
    if cls == "If":
        return ast.If(test=_name(), body=fill("body"), orelse=opt("orelse"))
    if cls in ("With", "AsyncWith"):
        return getattr(ast, cls)(items=[ast.withitem(context_expr=_name("cm"), optional_vars=None)], body=fill("body"), type_comment=None)
    if cls in ("Try", "TryStar") and hasattr(ast, cls):
        h = [ast.ExceptHandler(type=_name("E"), name=None, body=P)]
        return getattr(ast, cls)(body=fill("body"), handlers=h, orelse=opt("orelse"), finalbody=opt("finalbody"))
    if cls == "ExceptHandler":
        return ast.Try(body=P, handlers=[ast.ExceptHandler(type=_name("E"), name="e", body=inner)], orelse=[], finalbody=[])
    if cls == "match_case":
        return ast.Match(subject=_name(), cases=[ast.match_case(pattern=ast.MatchAs(pattern=None, name=None), guard=None, body=inner)])
    return None


# two extra positions the class/field enumeration merges: except* handler bodies, elif chains
EXTRA_POSITIONS = [("ExceptStarHandler", "body"), ("Elif", "body")]


def build_extra(cls, inner):
    P = [ast.Pass()]
    if cls == "ExceptStarHandler" and hasattr(ast, "TryStar"):
        return ast.TryStar(body=P, handlers=[ast.ExceptHandler(type=_name("E"), name=None, body=inner)], orelse=[], finalbody=[])
    if cls == "Elif":
        return ast.If(test=_name(), body=P, orelse=[ast.If(test=_name("y"), body=inner, orelse=[])])
    return None


def nest(path, imp_stmt):
    """path: list of (cls, field) outermost first -> module source with the import nested at that path."""
    inner = [imp_stmt]
    for cls, field in reversed(path):
        if cls == "Module":
            continue
        node = build_container(cls, field, inner) if (cls, field) not in EXTRA_POSITIONS else build_extra(cls, inner)
        if node is None:
            return None
        inner = [node]
    mod = ast.Module(body=[ast.Expr(value=ast.Constant(value="doc"))] + inner, type_ignores=[])
    ast.fix_missing_locations(mod)
    try:
        src = ast.unparse(mod)
        back = ast.parse(src)
    except Exception:  # noqa: BLE001
        return None
    # confirm: exactly one import statement, and it is nested at the intended depth
    imps = [n for n in ast.walk(back) if isinstance(n, (ast.Import, ast.ImportFrom))]
    if len(imps) != 1:
        return None
    return src + "\n"


def import_ast(stmt):
    if stmt[0] == "import":
        return ast.Import(names=[ast.alias(name=n, asname=("zz%d" % i if i % 2 else None)) for i, n in enumerate(stmt[1])])
    _, lvl, mod, names = stmt
    return ast.ImportFrom(module=mod, names=[ast.alias(name=n, asname=None) for n in names], level=lvl)


# --------------------------------------------------------------------------
# documented resolution (python oracle)


def documented_edges(root, dirs, files, mp):
    """Edges the documentation promises for a scan of module_path mp (externals excluded)."""
    mods = {scan.dotted(d) for d in dirs if d[:len(mp)] == mp} | {scan.dotted(f) for f, v in files.items() if v["py"] and f[:len(mp)] == mp}
    base = scan.dotted(mp)
    aprefix = scan.dotted(mp[:-1]) if len(mp) > 1 else None

    def internal(m):
        return m == base or m.startswith(base + ".")

    def adj(n):
        if aprefix is not None and aprefix + "." + n in mods:
            return aprefix + "." + n
        return n
    must, may = set(), set()
    for f, v in files.items():
        if not v["py"] or f[:len(mp)] != mp:
            continue
        u = scan.dotted(f)

        def visit(s):
            if s[0] == "block":
                for c in s[2]:
                    visit(c)
                return
            if s[0] == "import":
                tg = [adj(n) for n in s[1]]
            elif s[0] == "from":
                _, lvl, mod, names = s
                tg = []
                for nm in names:
                    if lvl == 0:
                        c = adj(mod + "." + nm)
                        tg.append(c if c in mods else adj(mod))
                    else:
                        pkg = f[:-1]
                        b = scan.dotted(pkg[:len(pkg) - lvl + 1])
                        if mod is None:
                            tg.append(b + "." + nm)
                        else:
                            c = b + "." + mod + "." + nm
                            tg.append(c if c in mods else b + "." + mod)
            else:
                return
            for t in tg:
                if t in mods and t != u:
                    (may if u.startswith(t + ".") else must).add((u, t))
        for s in v["body"]:
            visit(s)
    # an import from a module to its direct child is not representable (hierarchy edge)
    must = {(a, b) for a, b in must if not (b.startswith(a + ".") and b.count(".") == a.count(".") + 1)}
    return must, may


def check_project(root, dirs, files, sources, out, tag):
    rng = random.Random(repr((root, sorted(dirs), sorted(files))))      # choices inside depend on the project only (replayable)
    base = scan.materialise(dirs, files, sources)
    try:
        enc = rules.Enc()
        cases, metas = [], []
        mps = [(root,)] + ([d for d in dirs if len(d) == 2][:1]) + ([d for d in dirs if len(d) >= 3][:1])
        for mp in mps:
            # the same statements under a level limit: every promised import must show as the import between the truncated names
            if tag == "random" and len(mp) != 2:
                for k in (1, 2):
                    depth = k + len(mp) - 1
                    rl = scan.real_scan(base, root, mp, level_limit=k)
                    out["n"] += 1
                    if rl[0] != "OK":
                        continue
                    must_l, _ = documented_edges(root, dirs, files, mp)
                    tr = lambda x: ".".join(x.split(".")[:depth + 1])
                    need = {(tr(a), tr(b)) for a, b in must_l}
                    need = {(a, b) for a, b in need if a != b and not (b.startswith(a + ".") and b.count(".") == a.count(".") + 1)}
                    lost = sorted(need - set(rl[2]))
                    if lost and not scan.has_ambiguous_imports(dirs, files, mp):
                        out["violations"].append((dict(dirs=[list(d) for d in dirs], files={scan.dotted(f): (scan.render_v(v) if v["py"] else None) for f, v in files.items()},
                                                       module_path=list(mp), level_limit=k, missing=lost),
                                                  f"with level_limit={k} (module_path {scan.dotted(mp)}) the import {lost[0][0]} -> {lost[0][1]} promised by an import statement is missing", {"kind": "missing_edge_limited"}))
            xk = {}
            if tag == "random" and rng.random() < 0.3:
                # exclusion patterns that differ from names of the tree only in case exclude nothing: every file stays scanned
                xp = scan.harmless_case_exclusions(rng, dirs, files)
                if xp:
                    xk = {"exclusions": xp}
                    out["stats"]["with_case_differing_exclusions"] = out["stats"].get("with_case_differing_exclusions", 0) + 1
            r = scan.real_scan(base, root, mp, **xk)
            out["n"] += 1
            case = dict(dirs=[list(d) for d in dirs], files={scan.dotted(f): (sources.get(f) if sources and f in sources else scan.render_v(v)) if v["py"] else None for f, v in files.items()},
                        module_path=list(mp), position=tag, options={k: list(v) for k, v in xk.items()})
            if r[0] != "OK":
                out["violations"].append((dict(case, error=r[1]), f"scan failed: {r[1]}", {"kind": "scan_error"}))
                continue
            _, mods, edges, _ = r
            must, may = documented_edges(root, dirs, files, mp)
            got = set(edges)
            missing = sorted(must - got)
            surplus = sorted(got - must - may)
            if missing:
                out["violations"].append((dict(case, missing=missing), f"import statement not reflected in the architecture: {missing[0][0]} -> {missing[0][1]} (position {tag})", {"kind": "missing_edge", "position": str(tag)}))
            elif surplus:
                out["violations"].append((dict(case, surplus=surplus), f"architecture contains an import no statement accounts for: {surplus[0][0]} -> {surplus[0][1]}", {"kind": "surplus_edge"}))
            else:
                cases.append(scan.model_scan_case(enc, root, dirs, files, mp))
                metas.append((mp, mods, edges, case))
            if must:
                out["nontrivial"] += 1
        res = common.model_run(cases)
        for (mp, mods, edges, case), w, m in zip(metas, cases, res):
            d = scan.dec_scan(enc, m)
            if d is None or d[0] != "OK" or d[1] != mods or d[2] != edges:
                out["disagreements"].append((dict(case, impl_edges=edges, model=str(d)[:500]), f"model scan and real scan differ (position {tag})"))
        if not out["pairs"] and cases:
            out["pairs"].append((cases[0], res[0]))
    finally:
        scan.cleanup(base)


def _job(args):
    seed, paths, n_random = args
    rng = random.Random(seed)
    out = dict(n=0, nontrivial=0, stats={}, violations=[], disagreements=[], pairs=[], samples=[])
    # (a) grammar positions x import forms, on a fixed small project
    for path in paths:
        root = "proj"
        dirs = [("proj",), ("proj", "pkg"), ("proj", "pkg", "sub")]
        files = {("proj", "pkg", "m"): {"py": True, "body": []}, ("proj", "pkg", "n"): {"py": True, "body": []},
                 ("proj", "pkg", "sub", "deep"): {"py": True, "body": []}, ("proj", "top"): {"py": True, "body": []},
                 ("proj", "pkg", "__init__"): {"py": True, "body": []}}
        forms = [("import", ["proj.top"]), ("import", ["proj.pkg.n", "proj.pkg.sub.deep"]), ("from", 0, "proj.pkg.n", ["some_name"]),
                 ("from", 0, "proj.pkg", ["n"]), ("from", 0, "proj.pkg.sub", ["*"]), ("from", 1, None, ["n"]), ("from", 1, "sub", ["deep"]),
                 ("from", 2, None, ["top"]), ("from", 1, "n", ["thing"])]
        for form in forms:
            importer = ("proj", "pkg", "m")
            src = nest(path, import_ast(form))
            if src is None:
                out["stats"]["unbuildable_position"] = out["stats"].get("unbuildable_position", 0) + 1
                continue
            s = form
            for _ in [p for p in path if p[0] != "Module"]:
                s = ("block", "x", [s])
            files[importer]["body"] = [s]
            if form[0] == "from" and form[1] == 0 and "*" in form[3] and any(p[0] != "Module" for p in path):
                pass   # 'import *' below module level is rejected by the compiler, not by the parser: still scanned
            check_project(root, dirs, {k: dict(v) for k, v in files.items()}, {importer: src}, out, [list(p) for p in path])
            out["stats"]["position_cases"] = out["stats"].get("position_cases", 0) + 1
        if not out["samples"]:
            out["samples"].append(dict(position=[list(p) for p in path], source=nest(path, import_ast(forms[0]))))
    # (b) random projects, every import form, nested in random compound statements
    for _ in range(n_random):
        root, dirs, files = scan.gen_tree(rng, max_depth=4)
        scan.gen_imports(rng, dirs, files, nested=True)
        if rng.random() < 0.3:
            dirs = scan.add_links(rng, dirs, files)        # a module file / a package under a second name (symbolic links): named by the path
            if dirs.links or any(v.get("link_to") for v in files.values()):
                out["stats"]["projects_with_symlinks"] = out["stats"].get("projects_with_symlinks", 0) + 1
        check_project(root, dirs, files, None, out, "random")
        out["stats"]["random_projects"] = out["stats"].get("random_projects", 0) + 1
    return common.tag_job(out, __name__, "_job", list(args))


def rescan_after_edit(ctx: Ctx, n: int):
    """The architecture is a function of the tree as it is on disk at the time of the call: a project is scanned, then edited IN
    PLACE (an import statement appended to one file, one removed from another, a new module file added), and scanned again from
    the same paths with the same options.  The second scan must equal the scan of a fresh copy of the edited project."""
    import os
    for it in range(n):
        rng = ctx.rng
        root, dirs, files = scan.gen_tree(rng, max_depth=4)
        scan.gen_imports(rng, dirs, files, nested=True)
        pyfiles = [f for f, v in files.items() if v["py"]]
        if len(pyfiles) < 2:
            continue
        mods = list(dirs) + pyfiles
        files2 = {k: dict(v, body=list(v["body"])) for k, v in files.items()}
        f = rng.choice(pyfiles)
        files2[f]["body"].append(scan.gen_import_stmt(rng, f, mods))
        g = rng.choice([x for x in pyfiles if x != f])
        if files2[g]["body"]:
            files2[g]["body"].pop(rng.randrange(len(files2[g]["body"])))
        newf = rng.choice(dirs) + ("zz_new",)
        if newf not in files2:
            files2[newf] = {"py": True, "body": [("import", [scan.dotted(rng.choice(mods))])]}
        mp = rng.choice([(root,)] + [d for d in dirs if len(d) == 2][:1])
        kw = rng.choice([{}, {}, {"level_limit": 1}, {"exclude_external_libraries": False}])
        base = scan.materialise(dirs, files)
        ref = scan.materialise(dirs, files2)
        try:
            first = scan.real_scan(base, root, mp, **kw)
            for k2, v2 in files2.items():
                if v2["py"] and (k2 not in files or scan.render_v(files[k2]) != scan.render_v(v2)):
                    with open(os.path.join(base, *k2[:-1], k2[-1] + ".py"), "w", encoding="utf-8", newline="") as fh:
                        fh.write(scan.render_v(v2))
            second = scan.real_scan(base, root, mp, **kw)
            fresh = scan.real_scan(ref, root, mp, **kw)
            ctx.evaluations += 3
            if second[:3] != fresh[:3]:
                ctx.violation(dict(dirs=[list(d) for d in dirs], files_before={scan.dotted(k): (scan.render_v(v) if v["py"] else None) for k, v in files.items()},
                                   files_after={scan.dotted(k): (scan.render_v(v) if v["py"] else None) for k, v in files2.items()}, module_path=list(mp), options=kw,
                                   rescan=str(second[:3])[:500], fresh_scan_of_the_edited_project=str(fresh[:3])[:500]),
                              "a second scan of the same paths after the files were edited does not show the tree as it is now", {"kind": "rescan"})
            if first[:3] != second[:3]:
                ctx.mark_nontrivial(("rescan", it))
        finally:
            scan.cleanup(base)
            scan.cleanup(ref)
    ctx.stat("rescans_after_edit", n)


def same_stem_stream(ctx, n):
    """A module file next to a package directory of the same name (a.py beside a/): both are scanned, whichever the
    directory listing gives first - every import statement of the file and of every file below the directory is an import of
    the architecture, every file below the directory a module.  (Documented oracle only: the model's trees have one entry per name.)"""
    import os
    import pathlib
    import shutil
    from pytestarch import get_evaluable_architecture
    for it in range(n):
        rng = ctx.rng
        names = rng.sample(scan.POOL, 4)
        tw, inner, other, deep = names
        d = common.scratch_dir()
        try:
            root = d / "proj"
            (root / tw / deep).mkdir(parents=True)
            with_init = rng.random() < 0.5
            if with_init:
                (root / "__init__.py").write_text("")
                (root / tw / "__init__.py").write_text("")
            forms = lambda t0: rng.choice([f"import {t0}\n", f"from {t0.rsplit('.', 1)[0]} import {t0.rsplit('.', 1)[1]}\n"])
            (root / (other + ".py")).write_text(forms(f"proj.{tw}.{inner}"))
            (root / (tw + ".py")).write_text(forms(f"proj.{other}") + (forms(f"proj.{tw}.{inner}") if rng.random() < 0.5 else ""))
            (root / tw / (inner + ".py")).write_text(forms(f"proj.{other}"))
            (root / tw / deep / (inner + ".py")).write_text(forms(f"proj.{tw}.{inner}"))
            must_m = {"proj", f"proj.{tw}", f"proj.{other}", f"proj.{tw}.{inner}", f"proj.{tw}.{deep}", f"proj.{tw}.{deep}.{inner}"}
            must_e = {(f"proj.{other}", f"proj.{tw}.{inner}"), (f"proj.{tw}", f"proj.{other}"), (f"proj.{tw}.{inner}", f"proj.{other}"), (f"proj.{tw}.{deep}.{inner}", f"proj.{tw}.{inner}")}
            orig = pathlib.Path.iterdir
            for order in ("as listed", "ascending", "descending"):
                def listed(self, _orig=orig, _o=order):
                    items = list(_orig(self))
                    return iter(items if _o == "as listed" else sorted(items, reverse=_o == "descending"))
                pathlib.Path.iterdir = listed
                try:
                    arch = get_evaluable_architecture(str(root), str(root))
                    ns, es = rules.observe(arch, [], [])
                    res = ("OK", set(ns), set(es))
                except Exception as e:  # noqa: BLE001
                    res = ("ERR", type(e).__name__ + ": " + str(e)[:200])
                finally:
                    pathlib.Path.iterdir = orig
                ctx.evaluations += 1
                ctx.stat("file_and_directory_of_one_name")
                case = dict(tree={"proj/" + tw + ".py": "file", "proj/" + tw + "/": "directory"}, names=names, with_init=with_init, directory_listing=order)
                if res[0] != "OK":
                    ctx.violation(dict(case, error=res[1]), f"scan of a project with {tw}.py beside {tw}/ failed: {res[1]}", {"kind": "scan_error"})
                elif not must_m <= res[1] or not must_e <= res[2]:
                    ctx.violation(dict(case, modules_missing=sorted(must_m - res[1]), imports_missing=sorted(must_e - res[2])),
                                  f"{tw}.py beside {tw}/ (directory listing {order}): modules or import statements are lost", {"kind": "same_stem"})
            ctx.mark_nontrivial(("same_stem", tuple(names)))
        finally:
            shutil.rmtree(d, ignore_errors=True)


def hidden_entries_stream(ctx, n):
    """Hidden directories and dot-files are directories and files: a .py file below proj/.tools/ or named .gen.py is scanned like
    any other (the dot of its name is one more dot in the module name), its import statements are imports of the architecture."""
    import shutil
    from pytestarch import get_evaluable_architecture
    for it in range(n):
        rng = ctx.rng
        a, b = rng.sample(scan.POOL, 2)
        hid = rng.choice([".tools", ".ci", "._gen"])
        d = common.scratch_dir()
        try:
            root = d / "proj"
            (root / a).mkdir(parents=True)
            (root / hid).mkdir()
            (root / (b + ".py")).write_text("")
            (root / a / "m.py").write_text("")
            (root / a / ".gen.py").write_text(f"import proj.{b}\n")
            (root / hid / "t.py").write_text(f"from proj.{a} import m\n")
            try:
                arch = get_evaluable_architecture(str(root), str(root))
                ns, es = rules.observe(arch, [], [])
                res = ("OK", set(ns), set(es))
            except Exception as e:  # noqa: BLE001
                res = ("ERR", type(e).__name__ + ": " + str(e)[:200])
            ctx.evaluations += 1
            ctx.stat("hidden_directory_and_dot_file")
            must_m = {f"proj.{a}..gen", f"proj.{hid}.t", f"proj.{a}.m", f"proj.{b}"}
            must_e = {(f"proj.{a}..gen", f"proj.{b}"), (f"proj.{hid}.t", f"proj.{a}.m")}
            case = dict(tree=[f"proj/{a}/.gen.py", f"proj/{hid}/t.py", f"proj/{a}/m.py", f"proj/{b}.py"])
            if res[0] != "OK":
                ctx.violation(dict(case, error=res[1]), f"scan of a project with a hidden directory / dot-file failed: {res[1]}", {"kind": "scan_error"})
            elif not must_m <= res[1] or not must_e <= res[2]:
                ctx.violation(dict(case, modules_missing=sorted(must_m - res[1]), imports_missing=sorted(must_e - res[2])),
                              "python files below a hidden directory / named with a leading dot: modules or import statements are lost", {"kind": "hidden_entries"})
            ctx.mark_nontrivial(("hidden", a, b, hid))
        finally:
            shutil.rmtree(d, ignore_errors=True)


def run(ctx: Ctx):
    hidden_entries_stream(ctx, 6 if ctx.quick else 100)
    same_stem_stream(ctx, 12 if ctx.quick else 300)
    rescan_after_edit(ctx, 40 if ctx.quick else 1000)
    pos = [p for p in grammar_positions() if p[0] not in ("Interactive",)] + EXTRA_POSITIONS
    singles = [[p] for p in pos]
    paths = list(singles)
    inner_pos = [p for p in pos if p[0] != "Module"]
    for _ in range(60 if ctx.quick else 400):
        k = ctx.rng.choice([2, 3])
        paths.append([ctx.rng.choice(inner_pos) for _ in range(k)])
    if not ctx.quick:
        for a in inner_pos:
            for b in inner_pos:
                paths.append([a, b])
    chunks = [paths[i::NCPU * 2] for i in range(NCPU * 2)]
    n_random = 200 if ctx.quick else 6000
    jobs = [(ctx.rng.randrange(1 << 30), ch, n_random // len(chunks)) for ch in chunks]
    with Pool(NCPU) as pool:
        rs = pool.map(_job, jobs, chunksize=1)
    for r in rs:
        rules.merge_into(ctx, r)
    ctx.extra["grammar_positions"] = [list(p) for p in pos]
    ctx.stat("grammar_positions", len(pos))
    ctx.stat("nesting_paths", len(paths))
    ctx.rule = (f"{len(pos)} statement-list positions enumerated from the running interpreter's ast grammar (+ except* bodies and elif chains), {len(paths)} nesting paths (all single positions, "
                f"{'all pairs, ' if not ctx.quick else ''}random depth-2/3 paths) x 9 import forms (plain, multi/aliased, from-name, from-submodule, star, relative level 1 and 2, relative from-submodule, relative from-name), "
                "each built as an AST, unparsed, re-parsed, written into a real package and scanned from the root and from a sub-package; plus random projects with all forms nested in random compound statements; "
                "scanned import set compared with the documented resolution (missing and surplus edges) and with the model scan; non-trivial = project for which the documentation promises at least one import")


def replay(ctx: Ctx, path: str) -> int:
    r = json.load(open(path))
    c = r["case"]
    dirs = [tuple(d) for d in c["dirs"]]
    files, sources = {}, {}
    for k, src in c["files"].items():
        t = tuple(k.split("."))
        files[t] = {"py": src is not None, "body": []}
        if src is not None:
            sources[t] = src
    base = scan.materialise(dirs, files, sources)
    try:
        res = scan.real_scan(base, dirs[0][0], tuple(c["module_path"]))
        print("edges now:", res[2] if res[0] == "OK" else res[1])
        want = [tuple(e) for e in c.get("missing", [])]
        bad = [e for e in want if res[0] != "OK" or e not in res[2]]
        bad += [tuple(e) for e in c.get("surplus", []) if res[0] == "OK" and tuple(e) in res[2]]
        if bad:
            print("still failing:", bad)
            print(f"VIOLATION property=C02 replay={path}")
            return 1
        return 0
    finally:
        scan.cleanup(base)
