"""C17 — plot labels: aliases replace the nearest aliased ancestor, all modules labelled,
unknown alias rejected, other drawing options passed through.  Observed at the call into
the drawing backend (draw_networkx intercepted in the harness's own process)."""
from __future__ import annotations

import json
import random

from harness import common, rules
from harness.common import Ctx, s2n, n2s

# component names that repeat the root / each other, so that an aliased dotted name re-occurs later inside a longer name
SELF_SIMILAR = ["r", "a", "ra", "a_r", "r_a", "x"]
ALIAS_STRINGS = ["A", "Core", "x.y", "a.b.c", r"\1", r"\g<0>", "$^.*+?()[]{}|", "back\\slash", "", "é", "r", "r.a"]


_ALIAS_KIND = [0]


def intercepted_draw(arch, **kwargs):
    """Calls arch.visualize(**kwargs) with the drawing backend and the layout replaced by recorders.  The two networkx
    functions are replaced wherever they are bound (networkx itself and every loaded pytestarch module), so it does not
    matter how the library imports them."""
    import sys
    import networkx
    import pytestarch.eval_structure.networkxgraph  # noqa: F401  (make sure the drawing code is loaded)
    rec = {}

    def fake_draw(graph, *a, **kw):
        rec["graph_nodes"] = list(graph.nodes)
        rec["kwargs"] = kw

    def fake_layout(graph, *a, **kw):
        rec["layout_kwargs"] = kw
        return "POS-TOKEN"
    originals = {"draw_networkx": networkx.draw_networkx, "spring_layout": networkx.spring_layout}
    fakes = {"draw_networkx": fake_draw, "spring_layout": fake_layout}
    patched = []
    for mname, mod in list(sys.modules.items()):
        if mod is None or not (mname == "networkx" or mname.startswith("networkx.") or mname == "pytestarch" or mname.startswith("pytestarch.")):
            continue
        for fname, orig in originals.items():
            if getattr(mod, fname, None) is orig:
                setattr(mod, fname, fakes[fname])
                patched.append((mod, fname, orig))
    try:
        arch.visualize(**kwargs)
        return ("OK", rec)
    except AssertionError as e:
        return ("FAIL", str(e))
    except Exception as e:  # noqa: BLE001
        return ("ERR", (type(e).__name__, str(e)))
    finally:
        for mod, fname, orig in patched:
            setattr(mod, fname, orig)


def label_oracle(aliases: dict, m: str) -> str:
    """Documented: replace the name part of the most specific aliased module at or above m."""
    best = None
    for k in aliases:
        if m == k or m.startswith(k + "."):
            if best is None or k.count(".") > best.count("."):
                best = k
    if best is None:
        return m
    return aliases[best] + m[len(best):]


def gen_aliases(rng, nodes):
    k = rng.randint(0, min(4, len(nodes))) if len(nodes) < 20 else rng.randint(5, 12)
    keys = rng.sample(nodes, k)
    if rng.random() < 0.5 and len(nodes) > 2:
        # force nested aliased modules
        deep = max(nodes, key=lambda n: n.count("."))
        parts = deep.split(".")
        for i in range(1, len(parts) + 1):
            if rng.random() < 0.6:
                keys.append(".".join(parts[:i]))
    keys = list(dict.fromkeys(keys))
    rng.shuffle(keys)
    return {key: rng.choice(ALIAS_STRINGS) for key in keys}


def one_case(ctx, rng, nodes, edges, aliases, extra_kw, spacing):
    if rng.random() < 0.1:
        n2, e2, lim = rules.refine_for_limit(rng, nodes, edges)        # labels of a LEVEL-LIMITED architecture
        arch = rules.make_arch_direct(n2, e2, lim)
        gone = [x for x in n2 if x not in arch.modules]
        if aliases is not None and gone and rng.random() < 0.5:
            aliases = dict(aliases)
            aliases[rng.choice(gone)] = "Deep"           # a module of the source tree that the limited architecture does not contain
    elif rng.random() < 0.3:
        # the architecture is built from a module list that does not name the packages above its modules (what a scan with
        # module_path below root_path hands over): the graph adds them as nodes, and they are modules like the others - they are
        # labelled, and an alias for one of them is an alias for an existing module
        leaves_only = [n for n in nodes if not any(o.startswith(n + ".") for o in nodes)]
        arch = rules.make_arch_direct(leaves_only, edges)
        if set(arch.modules) != set(nodes):
            raise rules.HarnessError("an architecture built from the leaf modules does not hold their ancestor packages")
        ctx.stat("architecture_built_without_naming_the_ancestor_packages")
    else:
        arch = rules.make_arch_direct(nodes, edges)
    kw = dict(extra_kw)
    if spacing is not None:
        kw["spacing"] = spacing
    given = None
    if aliases is not None:
        given = dict(aliases)          # the caller's own dict object: it must come back unchanged
        _ALIAS_KIND[0] += 1
        if _ALIAS_KIND[0] % 5 == 0:
            import collections
            given = collections.defaultdict(str, aliases)     # still a dict[str, str]; looking a key up must not be how existence is tested
        elif _ALIAS_KIND[0] % 5 == 1:
            import collections
            given = collections.OrderedDict(reversed(list(aliases.items())))
        kw["aliases"] = given
    st, rec = intercepted_draw(arch, **kw)
    if given is not None and given != aliases:
        ctx.violation(dict(nodes=nodes, edges=edges, aliases=aliases, after=str(given)[:300]), "visualize changed the caller's alias map", {"kind": "alias_map_mutated"})
    ctx.evaluations += 1
    mods = list(arch.modules)
    case = dict(nodes=nodes, edges=edges, aliases=aliases, spacing=spacing, extra=list(extra_kw))
    unknown = [k for k in (aliases or {}) if k not in mods]
    if unknown:
        ctx.stat("unknown_alias")
        if st != "ERR" or not any(u in rec[1] for u in unknown):
            ctx.violation(dict(case, result=str((st, rec))[:300]), f"alias for the non-existent module {unknown[0]!r} was not rejected with an error naming it", {"kind": "unknown_alias"})
        return None
    if st != "OK":
        ctx.violation(dict(case, result=str(rec)[:300]), f"visualize failed: {rec}", {"kind": "visualize_error"})
        return None
    got = rec["kwargs"]
    # pass-through of everything except spacing / aliases; pos and labels added
    expect_keys = set(extra_kw) | ({"pos"} if spacing is not None else set()) | ({"labels"} if aliases is not None else set())
    if set(got) != expect_keys or any(got[k] is not extra_kw[k] and got[k] != extra_kw[k] for k in extra_kw):
        ctx.violation(dict(case, received=sorted(got)), f"drawing options not passed through unchanged: received {sorted(got)}, expected {sorted(expect_keys)}", {"kind": "kwargs"})
    if spacing is not None and (got.get("pos") != "POS-TOKEN" or rec.get("layout_kwargs", {}).get("k") != spacing):
        ctx.violation(dict(case, layout=str(rec.get("layout_kwargs"))), "spacing was not handed to the layout as k / pos not passed", {"kind": "kwargs"})
    if aliases is not None:
        labels = got.get("labels")
        ctx.stat("aliased_cases")
        if not isinstance(labels, dict) or set(labels) != set(mods):
            ctx.violation(dict(case, labels=str(labels)[:300]), "not every module is labelled exactly once", {"kind": "labels"})
            return None
        for m in mods:
            exp = label_oracle(aliases, m)
            if labels[m] != exp:
                ctx.violation(dict(case, module=m, label=labels[m], documented=exp),
                              f"module {m!r} labelled {labels[m]!r}, documented {exp!r}", {"kind": "labels"})
                break
        if any(label_oracle(aliases, m) != m for m in mods):
            ctx.mark_nontrivial((tuple(nodes), tuple(sorted(aliases.items()))))
        # the same dict object used for a second drawing after one alias text was changed (and on a sub-architecture)
        if given and rng.random() < 0.5:
            k0 = sorted(given)[0]
            given[k0] = given[k0] + "2"
            expect2 = dict(aliases, **{k0: aliases[k0] + "2"})
            st2, rec2 = intercepted_draw(arch, aliases=given)
            ctx.evaluations += 1
            lab2 = rec2["kwargs"].get("labels") if st2 == "OK" else None
            if st2 != "OK" or lab2 != {m: label_oracle(expect2, m) for m in mods}:
                ctx.violation(dict(case, second_call_aliases=expect2, result=str(rec2)[:300]),
                              "a second drawing with the same alias dict (one alias changed) is not labelled as documented", {"kind": "labels_second_call"})
        return labels
    return {}


def run(ctx: Ctx):
    rules.MEMBER_SPELLING = True
    n = 1500 if ctx.quick else 40000
    wire, refs = [], []
    for i in range(n):
        rng = ctx.rng
        if rng.random() < 0.1:
            nodes = rules.rand_tree(rng, rules.LARGE_POOL, max_nodes=40, max_depth=7)      # many modules, deep chains, numbered / non-ASCII / long names
        else:
            nodes = rules.rand_tree(rng, rng.choice((rules.COLLISION_FREE, rules.ADVERSARIAL, SELF_SIMILAR, SELF_SIMILAR, rules.UNICODE_POOL)), max_nodes=rng.choice([4, 8, 12]))
        edges = rules.rand_edges(rng, nodes, 5)
        aliases = gen_aliases(rng, nodes) if rng.random() < 0.85 else None
        if aliases is not None and rng.random() < 0.08:
            aliases[rng.choice(nodes) + rng.choice(["x", ".zz", "_"])] = "Ghost"     # alias for a module that does not exist
        extra = {}
        for k, v in (("node_size", 300), ("with_labels", True), ("ax", object()), ("font_size", 7), ("labels_", 1)):
            if rng.random() < 0.4:
                extra[k] = v
        spacing = rng.choice([None, 0.5, 2])
        labels = one_case(ctx, rng, nodes, edges, aliases, extra, spacing)
        if aliases is not None:
            arch_mods = rules.make_arch_direct(nodes, edges).modules
            wire.append([17, [[[s2n(k), s2n(v)] for k, v in aliases.items()], [s2n(m) for m in arch_mods]]])
            refs.append((nodes, aliases, labels, list(arch_mods)))
        if i < 2:
            ctx.sample(dict(nodes=nodes, aliases=aliases, spacing=spacing, labels=labels))
    res = common.model_run(wire)
    for w, (nodes, aliases, labels, mods), m in zip(wire, refs, res):
        if labels is None:
            unknown = [k for k in aliases if k not in mods]
            if unknown and not (m[0] == 1):
                ctx.disagreement(dict(nodes=nodes, aliases=aliases), "model accepted an alias for a non-existent module")
            continue
        if m[0] != 0:
            ctx.disagreement(dict(nodes=nodes, aliases=aliases, model=str(m)[:200]), "model rejected aliases the implementation accepted")
            continue
        ml = {n2s(k): n2s(v) for k, v in m[1]}
        if ml != labels:
            diff = [k for k in labels if ml.get(k) != labels[k]][:3]
            ctx.disagreement(dict(nodes=nodes, aliases=aliases, differing={k: [labels[k], ml.get(k)] for k in diff}), "model and implementation label differently")
    ctx.selfcheck_pairs += list(zip(wire[:30], res[:30]))
    # kwargs hand-off model: every subset of {spacing, aliases} x other options, exhaustive
    kwire = []
    for sp in (False, True):
        for al in (False, True):
            for others in ([], [4], [4, 5], [2], [3], [2, 3, 4]):
                kw = ([[0, 50]] if sp else []) + ([[1, 60]] if al else []) + [[k, 70 + k] for k in others]
                kwire.append([18, kw])
    kres = common.model_run(kwire)
    for w, m in zip(kwire, kres):
        ctx.evaluations += 1
        kw = dict(map(tuple, w[1]))
        exp = {k: v for k, v in kw.items() if k not in (0, 1)}
        if 0 in kw:
            exp[2] = 1000
        if 1 in kw:
            exp[3] = 1001
        if dict(map(tuple, m)) != exp:
            ctx.disagreement(dict(kwargs=w[1], model=m), "kwargs hand-off model differs from the documented hand-off")
    ctx.selfcheck_pairs += list(zip(kwire[:10], kres[:10]))
    ctx.rule = (f"{n} random module trees (collision-free and adversarial sibling names) x alias maps over subsets of their modules (nested aliased modules, prefix-siblings, alias strings with dots / "
                "regex metacharacters / backslashes / empty; 8% with an alias for a non-existent module) x spacing absent/present x random other drawing options; observed: the keyword arguments "
                "received by the intercepted draw_networkx and spring_layout; oracle: documented labelling evaluated directly; model labels compared as well; "
                "non-trivial = alias map that changes at least one label")


def rename_stream(ctx: Ctx, n: int):
    """C14: labels are invariant (up to the renaming) under injective renamings of path components."""
    from harness.props.c14 import FREE, ADV, ADV2, abstract_tree, render
    for _ in range(n):
        rng = ctx.rng
        anodes = abstract_tree(rng, rng.choice([5, 9]))
        keys = rng.sample(anodes, min(len(anodes), rng.randint(1, 3)))
        if rng.random() < 0.5:
            # a package with a child next to a sibling whose one-component name spells "package<any char>child"
            anodes = sorted(set(anodes) | {(0,), (0, 1), (2,)})
            keys = list(dict.fromkeys(keys + [(0, 1)]))
        alias_of = {k: rng.choice(["A", "B.c", "Z"]) for k in keys}
        perm = list(range(9))
        rng.shuffle(perm)
        results = []
        ADV3 = ["r", "rr", "r_", "a", "ar", "ra", "x", "xr", "rx"]     # names that repeat the root's name: an aliased dotted name re-occurs inside longer names
        ADV4 = ["a", "b", "a_b", "b_a", "axb", "c", "a_c", "ab", "ba"]     # a dot in a dotted name read as "any character"
        for names in (FREE, [ADV[perm[i]] for i in range(9)], [ADV2[perm[(i + 2) % 9]] for i in range(9)], [ADV3[perm[(i + 5) % 9]] for i in range(9)], ADV4):
            nodes = [render(x, names) for x in anodes]
            back = {render(x, names): x for x in anodes}
            arch = rules.make_arch_direct(nodes, [])
            st, rec = intercepted_draw(arch, aliases={render(k, names): v for k, v in alias_of.items()})
            ctx.evaluations += 1
            if st != "OK":
                results.append(("ERR", str(rec)[:100]))
                continue
            labs = rec["kwargs"]["labels"]
            # a label = alias + rest of the name; compare (which alias, how many trailing components kept)
            shape = {}
            for m, lab in labs.items():
                x = back[m]
                hit = None
                for k, a in alias_of.items():
                    kk = render(k, names)
                    if lab == a + m[len(kk):] and (m == kk or m.startswith(kk + ".")):
                        if hit is None or len(k) > len(hit):
                            hit = k
                shape[x] = ("alias", hit) if hit is not None and lab != m else ("plain",) if lab == m else ("other", lab)
            results.append(("OK", shape))
        for r in results[1:]:
            if r != results[0]:
                ctx.violation(dict(kind="labels", abstract_nodes=[list(x) for x in anodes], aliased=[list(k) for k in keys],
                                   free=str(results[0])[:300], adversarial=str(r)[:300]),
                              "plot labels change under an injective renaming of path components", {"kind": "labels"})
                break
    ctx.stat("label_rename_cases", n)


def replay(ctx: Ctx, path: str) -> int:
    r = json.load(open(path))
    c = r["case"]
    if "aliases" not in c:
        print("unsupported replay", json.dumps(c)[:300])
        return 2
    before = len(ctx.violations)
    one_case(ctx, random.Random(0), c["nodes"], [tuple(e) for e in c["edges"]], c["aliases"], {}, c.get("spacing"))
    for v in ctx.violations[before:]:
        print(v["what"])
    if len(ctx.violations) > before:
        print(f"VIOLATION property=C17 replay={path}")
        return 1
    return 0
