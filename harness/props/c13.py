"""C13 — undefined or incomplete specifications never produce a verdict.

Histories of fluent-API calls are run on the real classes and on the model's
builder state machines; an independent specification automaton (below, in
Python; its Coq twin is Model/Builder.v [spec_accepts]) classifies each
history from the kinds of its calls alone."""
from __future__ import annotations

import itertools
import json
import random
import tempfile
from multiprocessing import Pool
from pathlib import Path

from harness import rules, common
from harness.common import Ctx, NCPU

NODES = ["r", "r.a", "r.a.x", "r.b", "r.c", "r.c.y"]
EDGES = [("r.a.x", "r.b"), ("r.b", "r.c.y"), ("r.c", "r.a"), ("r.a", "r.b")]
RX = r"r\.c.*"

# symbol -> (method name, argument or None)
SYMS = {
    "MT": ("modules_that", None),
    "ANA": ("are_named", ["r.a"]),
    "ANB": ("are_named", "r.b"),
    "SUBA": ("are_sub_modules_of", ["r.a"]),
    "RX": ("have_name_matching", RX),
    "SH": ("should", None), "SO": ("should_only", None), "SN": ("should_not", None),
    "IM": ("import_modules_that", None), "BI": ("be_imported_by_modules_that", None),
    "IMX": ("import_modules_except_modules_that", None), "BIX": ("be_imported_by_modules_except_modules_that", None),
    "IA": ("import_anything", None), "BIA": ("be_imported_by_anything", None),
}
EXTRA = {
    "ANE": ("are_named", []),                      # empty list
    "ANZ": ("are_named", ["r.zz"]),                # unknown module
    "ANDEEP": ("are_named", ["r.a.x.deeper"]),     # too deep
    "RXNO": ("have_name_matching", r"zz.*"),       # regex matching nothing
    "CONT": ("have_name_containing", ["*a", "r.b"]),
    "CONTNO": ("have_name_containing", ["*a", "zz*"]),     # one partial name matches, the other matches nothing
    "AP": ("assert_applies", None),                # the rule object is evaluated in the middle of the history (outcome ignored)
}
ALLSYMS = {**SYMS, **EXTRA}
ORDER = list(SYMS)


UNDEFINED_SYMS = {"ANZ", "ANDEEP", "RXNO", "CONTNO"}     # mention a module / pattern that denotes nothing in NODES


def py_spec_accepts(hist) -> bool:
    """Independent specification automaton: complete and non-contradictory?"""
    side = None
    subj = obj = False
    verbs = set()
    imp = anything = False
    for s in hist:
        meth, arg = ALLSYMS[s]
        if meth == "assert_applies":
            continue          # an evaluation in between supplies nothing and excuses nothing
        if meth == "modules_that":
            side = "S"
        elif meth in ("are_named", "are_sub_modules_of", "have_name_matching", "have_name_containing"):
            if side is None:
                return False
            nonempty = True if isinstance(arg, str) else len(arg) > 0
            if side == "S":
                subj = nonempty
            else:
                obj = nonempty
        elif meth in ("should", "should_only", "should_not"):
            verbs.add(meth)
        else:
            imp = True
            side = "O"
            if meth.endswith("anything"):
                anything = True
    if not subj or not verbs or not imp or not (obj or anything):
        return False
    if "should_not" in verbs and len(verbs) > 1:
        return False
    if anything and verbs != {"should_not"}:
        return False
    return True


def undefined_in_effect(hist) -> bool:
    """Does the module list that is finally in effect on either side come from an UNDEFINED_SYMS call?
    (A later list replaces an earlier one on the same side; once an 'anything' import type has been
    chosen the object list is replaced by the subjects themselves, so object lists are not in effect.)"""
    side = None
    anything = False
    last = {"S": None, "O": None}
    for s in hist:
        meth = ALLSYMS[s][0]
        if meth == "modules_that":
            side = "S"
        elif meth in ("are_named", "are_sub_modules_of", "have_name_matching", "have_name_containing"):
            if side is not None:
                last[side] = s
        elif meth.startswith("import") or meth.startswith("be_imported"):
            side = "O"
            if meth.endswith("anything"):
                anything = True
    return last["S"] in UNDEFINED_SYMS or (not anything and last["O"] in UNDEFINED_SYMS)


def run_history_impl(hist, arch):
    Rule = rules.impl()[0]
    r = Rule()
    try:
        for s in hist:
            meth, arg = ALLSYMS[s]
            if meth == "assert_applies":
                try:
                    r.assert_applies(arch)
                except BaseException:  # noqa: BLE001  (outcome of the intermediate evaluation is irrelevant here)
                    pass
                continue
            nxt = getattr(r, meth)() if arg is None else getattr(r, meth)(arg)
            if nxt is None:
                raise rules.FluentChainBroken(f"{meth}() returned None: the call chain cannot be continued")
            r = nxt
    except AssertionError as e:
        return ("FAIL", "builder raised AssertionError: " + str(e))
    except Exception as e:  # noqa: BLE001
        return ("ERR", rules.classify_exception(e))
    return rules.run_rule(r, arch)


def enc_history(enc, hist, pats):
    conv = rules.partial_match_converter()
    out = []
    code = {"modules_that": 0, "are_named": 1, "are_sub_modules_of": 2, "have_name_matching": 3, "have_name_containing": 4,
            "should": 5, "should_only": 6, "should_not": 7, "import_modules_that": 8, "be_imported_by_modules_that": 9,
            "import_modules_except_modules_that": 10, "be_imported_by_modules_except_modules_that": 11,
            "import_anything": 12, "be_imported_by_anything": 13}
    for s in hist:
        meth, arg = ALLSYMS[s]
        if meth == "assert_applies":
            continue          # the model's builder has no intermediate evaluation; such histories are not compared with it
        k = code[meth]
        if k in (1, 2):
            names = [arg] if isinstance(arg, str) else arg
            out.append([k, [enc.name(n) for n in names]])
        elif k == 3:
            out.append([3, pats.setdefault(arg, len(pats) + 1)])
        elif k == 4:
            names = [arg] if isinstance(arg, str) else arg
            out.append([4, [pats.setdefault(conv(p), len(pats) + 1) for p in names]])
        else:
            out.append([k])
    return out


def _job(hists):
    arch = rules.make_arch_direct(NODES, EDGES)
    enc = rules.Enc()
    g = enc.graph_built(NODES, EDGES)
    pats = {}
    wire_h = [enc_history(enc, h, pats) for h in hists]
    rt = rules.regex_table(enc, pats, NODES)
    res = common.model_run([[14, [g, rt, wire_h]]])[0]
    viol, disag = [], []
    stats = {}
    nontriv = 0
    for h, m in zip(hists, res):
        io = run_history_impl(h, arch)
        mo = enc.dec_outcome(m[0])
        acc_coq = bool(m[1])
        acc_py = py_spec_accepts(h)
        stats["impl_" + io[0]] = stats.get("impl_" + io[0], 0) + 1
        stats["accepted" if acc_py else "rejected"] = stats.get("accepted" if acc_py else "rejected", 0) + 1
        case = dict(history=list(h), impl=[io[0], io[1][:200]], model=[mo[0], rules._jsonable_lines(mo[1])], spec_accepts=acc_py)
        if not acc_py and io[0] in ("PASS", "FAIL"):
            viol.append((case, f"incomplete/contradictory history {list(h)} produced the verdict {io[0]}", {"kind": "history"}))
            continue
        if acc_py and io[0] in ("PASS", "FAIL") and undefined_in_effect(h):
            viol.append((case, f"history {list(h)} mentions a module name / pattern that denotes nothing, yet produced the verdict {io[0]}", {"kind": "undefined_name"}))
            continue
        if "AP" in h:
            # the model sees the history without the intermediate evaluations: an evaluation leaves the rule object unchanged (C15_rule_object_unchanged)
            stats["with_intermediate_evaluation"] = stats.get("with_intermediate_evaluation", 0) + 1
        if acc_py != acc_coq:
            disag.append((case, f"specification automata disagree (python {acc_py}, coq {acc_coq}) on {list(h)}"))
        if not rules.same_verdict(io, mo) or not rules.same_lines(io, mo):
            disag.append((case, f"model and implementation differ on history {list(h)}: impl={io} model={mo[0]}"))
        if acc_py:
            nontriv += 1
    pair = ([14, [g, rt, wire_h[:12]]], res[:12])
    return dict(n=len(hists), nontrivial=nontriv, stats=stats, violations=viol, disagreements=disag, pairs=[pair],
                samples=[dict(history=list(hists[len(hists) // 2]), impl=run_history_impl(hists[len(hists) // 2], arch)[0])])


COMPLETE_CHAINS = [
    ["MT", "ANA", "SH", "IM", "ANB"], ["MT", "ANA", "SO", "BI", "ANB"], ["MT", "SUBA", "SN", "IMX", "ANB"],
    ["MT", "ANA", "SN", "IA"], ["MT", "ANB", "SN", "BIA"], ["MT", "RX", "SH", "BIX", "ANA"],
    ["MT", "ANA", "SH", "IM", "RX"], ["MT", "CONT", "SN", "IM", "ANB"], ["MT", "ANA", "SO", "IMX", "SUBA"],
    ["MT", "ANA", "SH", "SO", "IM", "ANB"], ["MT", "ANA", "MT", "ANB", "SH", "IM", "ANA"],
    ["MT", "CONTNO", "SN", "IM", "ANB"], ["MT", "ANA", "SH", "BI", "CONTNO"],
]


def mutations(chain):
    out = []
    n = len(chain)
    for i in range(n):
        out.append(chain[:i] + chain[i + 1:])
        out.append(chain[:i + 1] + chain[i:])
        if i + 1 < n:
            out.append(chain[:i] + [chain[i + 1], chain[i]] + chain[i + 2:])
    for i in range(n + 1):
        for s in ("ANE", "ANZ", "ANDEEP", "RXNO", "SN", "IA"):
            out.append(chain[:i] + [s] + chain[i:])
        out.append(chain[:i] + ["AP"] + chain[i:])
    # the rule object is evaluated, then a further call makes it contradictory / leaves it complete, then it is evaluated again
    for s in ("SH", "SO", "SN", "IA", "BIA", "IM", "MT"):
        out.append(chain + ["AP", s])
        out.append(chain + ["AP", "AP", s])
    return out


def unknown_name_stream(ctx, n):
    """Misspelt / too-deep names on random (also level-limited) architectures: direct oracle on the implementation."""
    viol = 0
    for _ in range(n):
        rng = ctx.rng
        nodes = rules.rand_tree(rng, rng.choice((rules.COLLISION_FREE, rules.ADVERSARIAL)), max_nodes=10)
        edges = rules.rand_edges(rng, nodes)
        limit = rng.choice([None, None, 1, 2, 0])
        # one case in five through a real scan of a file tree (the public entry point passes the limit on)
        scanned = rng.random() < 0.2
        if scanned:
            inner_n = {x for x in nodes if any(m.startswith(x + ".") for m in nodes)}
            edges = [(a, b) for a, b in edges if a not in inner_n]
            arch = rules.make_arch_scan(nodes, edges, limit)
            ctx.stat("unknown_name_on_scanned_architecture")
        else:
            arch = rules.make_arch_direct(nodes, edges, limit)
        # what the architecture holds according to the documentation (names truncated to the level limit) - not read off the
        # architecture object, which a defect may have built too deep
        present = set(nodes) if limit is None else {".".join(x.split(".")[:limit + 1]) for x in nodes}
        good = rng.choice(sorted(present))
        base = rng.choice(nodes)
        bad = rng.choice([base + "x", base + ".zz", base[:-1] or "q", "rr." + base, base.upper() + "_", base + "." + base.split(".")[-1], base + ".{z}", "%s." + base, base + " "])
        if limit is not None:
            deep = [x for x in nodes if x.count(".") > limit]
            if deep and rng.random() < 0.5:
                bad = rng.choice(deep)       # exists in the full tree, flattened away by the limit
        if bad in present:
            continue
        # batches: the absent name listed next to existing ones, preferably next to its own would-be parent / ancestors
        batch = [bad]
        if rng.random() < 0.65:
            ancestors = [a for a in (".".join(bad.split(".")[:i]) for i in range(1, bad.count(".") + 1)) if a in present and a != good]
            mates = (rng.sample(ancestors, 1) if ancestors and rng.random() < 0.8 else []) + rng.sample(sorted(present - {good}), min(len(present) - 1, rng.randint(0, 2)))
            batch = list(dict.fromkeys(mates + [bad]))
            rng.shuffle(batch)
            ctx.stat("unknown_name_in_batch" + ("_below_listed_parent" if any(bad.startswith(m + ".") for m in batch) else ""))
        specs = rules.all_shapes((rng.choice(["named", "sub"]), [good]), (rng.choice(["named", "sub"]), batch), with_aliases=False) + \
            rules.all_shapes((rng.choice(["named", "sub"]), batch), (rng.choice(["named", "sub"]), [good]))
        (rec, _w, _m), = rules.eval_cases([dict(nodes=nodes, edges=edges, specs=specs, limit=limit, mode="scan" if scanned else "direct")])
        for spec, (io, mo) in zip(specs, rec):
            ctx.evaluations += 1
            ctx.stat("unknown_name_" + io[0])
            case = dict(nodes=nodes, edges=edges, level_limit=limit, scanned=scanned, spec=rules._jsonable_spec(spec), impl=io[0])
            if io[0] in ("PASS", "FAIL"):
                viol += 1
                ctx.violation(case, f"rule mentioning the absent module {bad!r} produced the verdict {io[0]}", {"kind": "unknown_name"})
            if not rules.same_verdict(io, mo):
                ctx.disagreement(dict(case, model=mo[0]), f"unknown-name rule: implementation {io[0]}, model {mo[0]}")
        # the same batch as a LAYER (subject, then object) of a layer rule: 14 shapes incl. the two any-layer aliases
        if limit is None and not scanned and len(present) >= 3:
            from harness import layers
            from harness.props import c05
            rest = sorted(x for x in present if x != good and x not in batch and x != "r")
            import re as _re
            for subj_is_bad in (True, False, "mixed"):
                arch_calls = [("LB", "list", list(batch)), ("LG", "list", [good])]
                cc = dict(arch_calls=arch_calls, subj="LB" if subj_is_bad is True else "LG", objs=["LG" if subj_is_bad is True else "LB"], obj_as_str=False)
                if subj_is_bad == "mixed":
                    # the layer with the absent name in ONE object batch with a layer defined by a regular expression (listed last):
                    # how a layer was defined is a property of that layer, not of the batch it is named in
                    if not rest:
                        continue
                    # ... the absent name being a real module's name without its last letter (read as a pattern it would match)
                    cut = sorted(m[:-1] for m in present if m not in ("r", good) and not m[:-1].endswith(".") and m[:-1] not in present)
                    if cut and rng.random() < 0.7:
                        arch_calls = [("LB", "list", [rng.choice(cut)]), ("LG", "list", [good])]
                    arch_calls = arch_calls + [("LR", "regex", _re.escape(rest[0]) + "$")]
                    cc = dict(arch_calls=arch_calls, subj="LG", objs=["LB", "LR"], obj_as_str=False)
                    ctx.stat("unknown_name_layer_in_a_batch_with_a_regex_layer")
                hs, metas = c05.histories(cc)
                res, _pair = layers.eval_layer_histories(nodes, edges, hs)
                for meta, (io, mo) in zip(metas, res):
                    ctx.evaluations += 1
                    ctx.stat("unknown_name_in_layer_" + io[0])
                    case = dict(nodes=nodes, edges=edges, layers=[[a, b, v] for a, b, v in arch_calls], rule=dict(meta, subject=cc["subj"], objects=cc["objs"]), impl=io[0])
                    # the any-layer aliases take no object: a rule about LG does not mention the layer LB at all
                    mentions = subj_is_bad is True or not meta["anything"]
                    if mentions and io[0] in ("PASS", "FAIL"):
                        ctx.violation(case, f"layer rule over a layer that lists the absent module {bad!r} produced the verdict {io[0]}", {"kind": "unknown_name_layer"})
                    if not layers.same_layer_outcome(io, mo, lines=False):
                        ctx.disagreement(dict(case, model=mo[0]), f"unknown-name layer rule: implementation {io[0]}, model {mo[0]}")
        ctx.mark_nontrivial(("unknown", bad, tuple(nodes)))


def entry_point_options(ctx):
    """Every invalid option combination of both entry points; module_path outside root_path."""
    from pytestarch import get_evaluable_architecture
    d = common.scratch_dir()
    try:
        root = d / "proj"
        (root / "pkg").mkdir(parents=True)
        (root / "pkg" / "m.py").write_text("import os\n")
        (d / "other").mkdir()
        combos = []
        for ex in (("*x",), ()):
            for rex in (("x.*",), None, ()):
                for eel in (True, False):
                    for xe in (("os",), None):
                        for rxe in (("os.*",), None):
                            combos.append(dict(exclusions=ex, regex_exclusions=rex, exclude_external_libraries=eel, external_exclusions=xe, regex_external_exclusions=rxe))
        for kw in combos:
            invalid = bool(kw["exclusions"] and kw["regex_exclusions"]) or bool(kw["external_exclusions"] and kw["regex_external_exclusions"]) or \
                (kw["exclude_external_libraries"] and bool(kw["external_exclusions"] or kw["regex_external_exclusions"]))
            try:
                get_evaluable_architecture(str(root), str(root / "pkg"), **kw)
                out = "OK"
            except AssertionError:
                out = "FAIL"
            except Exception as e:  # noqa: BLE001
                out = "ERR:" + type(e).__name__
            ctx.evaluations += 1
            ctx.stat("options_" + ("invalid" if invalid else "valid"))
            if invalid and not out.startswith("ERR"):
                ctx.violation(dict(options={k: list(v) if isinstance(v, tuple) else v for k, v in kw.items()}, result=out),
                              f"invalid option combination accepted: {kw}", {"kind": "options"})
            if not invalid and out != "OK":
                ctx.stat("options_valid_but_" + out)   # outside C13's claim (e.g. exclusions=() with regex_exclusions=None -> TypeError)
            ctx.mark_nontrivial(("opt", str(kw)))
        for mp in (str(d / "other"), str(d)):
            try:
                get_evaluable_architecture(str(root), mp)
                out = "OK"
            except AssertionError:
                out = "FAIL"
            except Exception as e:  # noqa: BLE001
                out = "ERR:" + type(e).__name__
            ctx.evaluations += 1
            if not out.startswith("ERR"):
                ctx.violation(dict(root=str(root), module_path=mp, result=out), "module_path outside root_path accepted", {"kind": "options"})
    finally:
        import shutil
        shutil.rmtree(d, ignore_errors=True)


def diagram_rule_incomplete(ctx):
    from pytestarch import DiagramRule
    arch = rules.make_arch_direct(NODES, EDGES)
    d = common.scratch_dir()
    try:
        cases = []
        cases.append(("no file", lambda: DiagramRule().assert_applies(arch)))
        cases.append(("no file, base module", lambda: DiagramRule().with_base_module("r").assert_applies(arch)))
        p1 = d / "notags.puml"
        p1.write_text("[a] --> [b]\n")
        p2 = d / "noend.puml"
        p2.write_text("@startuml\n[a] --> [b]\n")
        p3 = d / "nostart.puml"
        p3.write_text("[a] --> [b]\n@enduml\n")
        # "without start/end tags" is also: the tags in the wrong order, a second diagram opened and never closed after a complete
        # one is still a file WITH a tag pair (not listed here), the two tags with nothing between them, misspelt tags
        more = {"reversed.puml": "@enduml\n[a] --> [b]\n@startuml\n", "reversed_inline.puml": "@enduml [a] --> [b] @startuml",
                "adjacent.puml": "@startuml@enduml", "misspelt_end.puml": "@startuml\n[a] --> [b]\n@endulm\n", "misspelt_start.puml": "@startulm\n[a] --> [b]\n@enduml\n",
                "only_end_twice.puml": "@enduml\n[a] --> [b]\n@enduml\n", "only_start_twice.puml": "@startuml\n[a] --> [b]\n@startuml\n"}
        extra_paths = []
        for nm, txt in more.items():
            q = d / nm
            q.write_text(txt)
            extra_paths.append(q)
        for p in (p1, p2, p3, *extra_paths):
            for mode in (True, False):
                cases.append((f"{p.name} should_only={mode}", lambda p=p, mode=mode: DiagramRule(should_only_rule=mode).from_file(p).with_base_module("r").assert_applies(arch)))
        # a diagram that names a component absent from the architecture (a typo): every declaration / arrow form, the unknown
        # name on either side, ASCII and non-ASCII identifiers - a lookup error, never a verdict
        k = 0
        for ghost in ("zz", "a_typo", "\u00fcberblick", "\u00e9cran", "gro\u00df", "\u043c\u043e\u0434\u0435\u043b\u044c", "\u30c7\u30fc\u30bf", "b.deeper.zz"):
            for body in (f"[{ghost}] --> [b]", f"[a] --> [{ghost}]", f"[b] <-- [{ghost}]", f"{ghost} --> b", f"a -> {ghost}", f"[{ghost}]\n[a] --> [b]",
                         f"component {ghost}\n[a] --> [b]", f"component [{ghost}] as g\n[a] --> g", f"[a] -uses-> [{ghost}]"):
                k += 1
                p = d / f"ghost{k}.puml"
                p.write_text("@startuml\n" + body + "\n@enduml\n", encoding="utf-8")
                for mode in (True, False):
                    cases.append((f"unknown component {ghost!r} in {body!r} should_only={mode}",
                                  lambda p=p, mode=mode: DiagramRule(should_only_rule=mode).from_file(p).with_base_module("r").assert_applies(arch)))
        for name, fn in cases:
            try:
                fn()
                out = "PASS"
            except AssertionError:
                out = "FAIL"
            except Exception as e:  # noqa: BLE001
                out = "ERR:" + type(e).__name__
            ctx.evaluations += 1
            ctx.stat("diagram_" + out.split(":")[0])
            if not out.startswith("ERR"):
                ctx.violation(dict(diagram_case=name, result=out), f"incomplete diagram rule ({name}) produced {out}", {"kind": "diagram"})
            ctx.mark_nontrivial(("diagram", name))
    finally:
        import shutil
        shutil.rmtree(d, ignore_errors=True)


def run(ctx: Ctx):
    rules.MEMBER_SPELLING = True
    hists = []
    maxlen = 4 if ctx.quick else 5
    for k in range(maxlen + 1):
        hists.extend(itertools.product(ORDER, repeat=k))
    if ctx.quick:
        allsyms = list(ALLSYMS)
        for _ in range(30000):
            k = ctx.rng.randint(5, 7)
            hists.append(tuple(ctx.rng.choice(allsyms) for _ in range(k)))
    else:
        allsyms = list(ALLSYMS)
        for _ in range(200000):
            k = ctx.rng.randint(6, 8)
            hists.append(tuple(ctx.rng.choice(allsyms) for _ in range(k)))
    n_exh = len(hists)
    for ch in COMPLETE_CHAINS:
        hists.append(tuple(ch))
        hists.extend(tuple(m) for m in mutations(ch))
    chunk = 1500
    jobs = [hists[i:i + chunk] for i in range(0, len(hists), chunk)]
    with Pool(NCPU) as pool:
        rs = pool.map(_job, jobs, chunksize=1)
    for r in rs:
        rules.merge_into(ctx, r)
    ctx.stat("histories", len(hists))
    unknown_name_stream(ctx, 150 if ctx.quick else 3000)
    entry_point_options(ctx)
    diagram_rule_incomplete(ctx)
    from harness.props import c13_layer
    c13_layer.run_layer_histories(ctx)
    ctx.exhaustive = True
    ctx.rule = (f"Rule: all call sequences of length <= {maxlen} over the 14-symbol vocabulary (exhaustive, {n_exh} incl. random longer ones over a 19-symbol vocabulary with empty lists, "
                "unknown and too-deep names, non-matching regexes), every deletion/duplication/transposition/insertion of 11 complete chains; each followed by assert_applies; "
                "oracle on the real code: history rejected by the specification automaton => neither PASS nor AssertionError; model outcome compared as well. "
                "LayerRule: all call-chain prefixes and mutations (see c13_layer). Unknown/too-deep names on random (also level-limited) architectures x 24 rule shapes. "
                "All 48 entry-point option combinations + module_path outside root_path. DiagramRule without file / without tags / naming a component that does not exist (all line forms, ASCII and non-ASCII names). non-trivial = accepted (complete) histories and distinct error cases")


def replay(ctx: Ctx, path: str) -> int:
    r = json.load(open(path))
    c = r["case"]
    if "history" in c:
        arch = rules.make_arch_direct(NODES, EDGES)
        io = run_history_impl(c["history"], arch)
        acc = py_spec_accepts(c["history"])
        print(c["history"], io[0], "spec_accepts=", acc)
        if not acc and io[0] in ("PASS", "FAIL"):
            print(f"VIOLATION property=C13 replay={path}")
            return 1
        return 0
    print("replay kind not supported for automatic re-run; case:", json.dumps(c)[:500])
    return 2
