"""C04 — modules and hierarchy mirror the scanned directory tree, named from root_path;
sub-directory scans equal restricted root scans; module-object entry point = path entry point."""
from __future__ import annotations

import importlib
import json
import os
import random
import sys
from multiprocessing import Pool

from harness import common, rules, scan
from harness.common import Ctx, NCPU

_counter = [0]


def expected_modules(dirs, files, mp):
    below = [d for d in dirs if d[:len(mp)] == mp] + [f for f, v in files.items() if v["py"] and f[:len(mp)] == mp]
    anc = [mp[:i] for i in range(1, len(mp))]
    return sorted({scan.dotted(x) for x in below + anc})


def hierarchy_ok(arch, modules):
    """sub modules of X (as the rule language sees them: what is reachable from X over the graph's hierarchy edges) =
    modules whose dotted name extends X."""
    try:
        nx = rules.nx_of(arch)
        kids = {}
        for a, b in nx.edges():
            if rules.is_hierarchy_pair(a, b):
                kids.setdefault(a, []).append(b)
    except Exception:  # noqa: BLE001
        return (modules[0] if modules else "?"), None
    try:
        # the library's own search (what rules use for 'sub modules of'), when it is where it used to be; the hierarchy edges
        # above are the representation-level observation
        from pytestarch.eval_structure.breadth_first_searches import get_all_submodules_of as _lib_sub
        from pytestarch.eval_structure.evaluable_architecture import ModuleNameFilter as _MNF
        inner = next((v for v in vars(arch).values() if hasattr(v, "direct_successor_nodes")), None)
    except Exception:  # noqa: BLE001
        _lib_sub = inner = None
    for m in modules:
        if _lib_sub is not None and inner is not None:
            try:
                lib = set(_lib_sub(inner, _MNF(name=m)))
            except Exception:  # noqa: BLE001
                return m, None
            exp0 = {x for x in modules if x == m or x.startswith(m + ".")}
            if lib != exp0:
                return m, (sorted(lib), sorted(exp0))
        got, todo = set(), [m]
        while todo:
            x = todo.pop()
            if x in got:
                continue
            got.add(x)
            todo.extend(kids.get(x, []))
        exp = {x for x in modules if x == m or x.startswith(m + ".")}
        if got != exp:
            return m, (sorted(got), sorted(exp))
    return None


def _job(args):
    seed, n = args
    rng = random.Random(seed)
    out = dict(n=0, nontrivial=0, stats={}, violations=[], disagreements=[], pairs=[], samples=[])
    for it in range(n):
        root, dirs, files = scan.gen_tree(rng, max_depth=5)
        scan.gen_imports(rng, dirs, files, nested=True)
        # absolute imports written relative to a directory's parent (resolved when that directory is module_path)
        pyfiles = [f for f, v in files.items() if v["py"]]
        for f in pyfiles:
            if len(f) >= 3 and rng.random() < 0.4:
                k = rng.randint(1, len(f) - 2)
                tgt = rng.choice([m for m in list(dirs) + pyfiles if m[:k] == f[:k]] or [f])
                if len(tgt) > k:
                    # both spellings: 'import pkg.mod' and 'from pkg import mod' (the name checked against the scanned modules only
                    # after the prefix is prepended)
                    if len(tgt) > k + 1 and rng.random() < 0.5:
                        files[f]["body"].append(("from", 0, scan.dotted(tgt[k:-1]), [tgt[-1]] + (["helper"] if rng.random() < 0.3 else [])))
                    else:
                        files[f]["body"].append(("import", [scan.dotted(tgt[k:])]))
        if rng.random() < 0.3:
            # symbolic links inside the project (a module file under a second name, a package under a second name): a link is what
            # its path says - the modules below it are named by the path through the link
            dirs = scan.add_links(rng, dirs, files)
            if dirs.links or any(v.get("link_to") for v in files.values()):
                out["stats"]["projects_with_symlinks"] = out["stats"].get("projects_with_symlinks", 0) + 1
        base = scan.materialise(dirs, files)
        # now and then with exclusion patterns that differ from names of the tree only in case: they exclude nothing
        xk = {}
        if rng.random() < 0.3:
            xp = scan.harmless_case_exclusions(rng, dirs, files)
            if xp:
                xk = {"exclusions": xp}
                out["stats"]["with_case_differing_exclusions"] = out["stats"].get("with_case_differing_exclusions", 0) + 1
        try:
            whole = scan.real_scan(base, root, (root,), **xk)
            cases, metas = [], []
            enc = rules.Enc()
            for mp in dirs:
                r = scan.real_scan(base, root, mp, **xk)
                out["n"] += 1
                case = dict(dirs=[list(d) for d in dirs], files={scan.dotted(f): (scan.render_v(v) if v["py"] else None) for f, v in files.items()}, module_path=list(mp))
                if r[0] != "OK":
                    out["violations"].append((dict(case, error=r[1]), f"scan of module_path {scan.dotted(mp)} failed: {r[1]}", {"kind": "scan_error"}))
                    continue
                _, mods, edges, arch = r
                exp = expected_modules(dirs, files, mp)
                if mods != exp:
                    out["violations"].append((dict(case, modules=mods, documented=exp, surplus=sorted(set(mods) - set(exp)), missing=sorted(set(exp) - set(mods))),
                                              f"modules of the scan of {scan.dotted(mp)} differ from the directory tree", {"kind": "modules"}))
                    continue
                h = hierarchy_ok(arch, mods)
                if h is not None:
                    out["violations"].append((dict(case, module=h[0], detail=str(h[1])[:300]), f"sub modules of {h[0]} are not the modules whose name extends it", {"kind": "hierarchy"}))
                    continue
                # an absolute import name that can be read both ways (fully qualified from the root AND relative to
                # module_path's parent, both naming scanned modules) is ambiguous: outside the claim
                ambiguous = False
                if len(mp) > 1:
                    allmods = set(expected_modules(dirs, files, (root,)))
                    ap = scan.dotted(mp[:-1])

                    def names_of(s0):
                        if s0[0] == "import":
                            return list(s0[1])
                        if s0[0] == "from" and s0[1] == 0:
                            return [s0[2]] + [s0[2] + "." + nmx for nmx in s0[3]]
                        if s0[0] == "block":
                            return [x for c0 in s0[2] for x in names_of(c0)]
                        return []
                    for f0, v0 in files.items():
                        if v0["py"] and f0[:len(mp)] == mp:
                            for s0 in v0["body"]:
                                for nm0 in names_of(s0):
                                    if nm0 in allmods and ap + "." + nm0 in allmods:
                                        ambiguous = True
                if ambiguous:
                    out["stats"]["ambiguous_import_names"] = out["stats"].get("ambiguous_import_names", 0) + 1
                # every import statement the documentation promises to resolve must be an edge of the sub scan
                if not ambiguous:
                    from harness.props.c02 import documented_edges
                    must, may = documented_edges(root, dirs, files, mp)
                    lost = sorted(must - set(edges))
                    if lost:
                        out["violations"].append((dict(case, unresolved=lost), f"scan of {scan.dotted(mp)}: import {lost[0][0]} -> {lost[0][1]} (fully qualified or relative to module_path's parent) is not resolved", {"kind": "subscan_resolution"}))
                        continue
                # sub-directory scan = whole-root scan restricted to the sub-tree
                if whole[0] == "OK" and len(mp) > 1 and not ambiguous:
                    pre = scan.dotted(mp)
                    inside = lambda m: m == pre or m.startswith(pre + ".")
                    w_edges = sorted((a, b) for a, b in whole[2] if inside(a) and inside(b))
                    s_edges = sorted((a, b) for a, b in edges if inside(a) and inside(b))
                    # imports written relative to mp's parent only resolve in the sub scan: compare on fully qualified / relative ones
                    extra = sorted(set(s_edges) - set(w_edges))
                    missing = sorted(set(w_edges) - set(s_edges))
                    if missing:
                        out["violations"].append((dict(case, missing_in_sub_scan=missing), f"scanning {pre} loses imports that the whole-root scan has inside that sub-tree", {"kind": "subscan"}))
                        continue
                    for a, b in extra:
                        # must be explained by an absolute import written relative to mp's parent
                        srcs = scan.import_statements(files[tuple(a.split("."))]["body"])
                        rel = b[len(scan.dotted(mp[:-1])) + 1:]
                        if not any(s[0] == "import" and rel in s[1] for s in srcs) and not any(s[0] == "from" and s[1] == 0 and (s[2] == rel or any(s[2] + "." + nmx == rel for nmx in s[3])) for s in srcs):
                            out["violations"].append((dict(case, unexplained=[a, b]), f"sub scan of {pre} has an import {a}->{b} no statement accounts for", {"kind": "subscan"}))
                            break
                cases.append(scan.model_scan_case(enc, root, dirs, files, mp))
                metas.append((mp, mods, edges, case))
                # an exclusion pattern that matches a directory ABOVE module_path (root_path's own directory included) and
                # nothing at or below module_path: exclusions decide about what the scan finds at or below module_path, the ancestor
                # packages of module_path are part of the architecture regardless - same modules, same imports as without it
                if len(mp) > 1 and not xk and rng.random() < 0.5:
                    import re as _re
                    from harness.props.c08 import glob_oracle
                    anc = mp[:rng.randint(1, len(mp) - 1)]
                    anc_path = os.path.join(str(base), *anc)
                    below = [os.path.join(str(base), *p0[:-1], p0[-1] + ((".py" if files[p0]["py"] else ".txt") if p0 in files else ""))
                             for p0 in list(dirs) + list(files) if p0[:len(mp)] == mp]
                    as_regex = rng.random() < 0.4
                    if as_regex:
                        pat = rng.choice([".*/" + _re.escape(anc[-1]) + "$", _re.escape(anc_path) + "$"])
                        hits = lambda s0: _re.match(pat, s0) is not None
                        akw = dict(exclusions=(), regex_exclusions=(pat,))
                    else:
                        pat = rng.choice([anc_path, "*/" + anc[-1], "*" + anc[-1]])
                        hits = lambda s0: glob_oracle(pat, s0)
                        akw = dict(exclusions=(pat,))
                    if hits(anc_path) and not any(hits(s0) for s0 in below):
                        ra = scan.real_scan(base, root, mp, **akw)
                        out["n"] += 1
                        out["stats"]["exclusion_matching_only_an_ancestor_of_module_path"] = out["stats"].get("exclusion_matching_only_an_ancestor_of_module_path", 0) + 1
                        if ra[0] != "OK" or ra[1] != mods or ra[2] != edges:
                            out["violations"].append((dict(case, options={k0: list(v0) for k0, v0 in akw.items()}, with_pattern=[ra[1], ra[2]] if ra[0] == "OK" else ra[1], without=[mods, edges]),
                                                      f"an exclusion pattern ({pat!r}) that matches only {scan.dotted(anc)}, a directory above module_path {scan.dotted(mp)}, changes the architecture", {"kind": "ancestor_exclusion"}))
                if len(mods) > 3:
                    out["nontrivial"] += 1
            # an inner directory scanned as a project of its own (root_path = module_path = that directory), in the same process and
            # after the scans from the outer root - preferably a directory that bears the outer root's name (proj/src/proj)
            inner = [d for d in dirs if len(d) > 1 and not getattr(dirs, "links", None) and not any(v.get("link_to") for v in files.values())]
            inner = [d for d in inner if d[-1] == root] or (inner if rng.random() < 0.3 else [])
            if inner and not xk:
                d0 = rng.choice(inner)
                cut = len(d0) - 1
                dirs2 = [x[cut:] for x in dirs if x[:len(d0)] == d0]
                files2 = {f[cut:]: v for f, v in files.items() if f[:len(d0)] == d0}
                if all(scan.max_relative_level(v["body"]) <= len(f) - 1 for f, v in files2.items() if v["py"]):
                    r2 = scan.real_scan(os.path.join(base, *d0[:-1]), d0[-1], (d0[-1],))
                    out["n"] += 1
                    out["stats"]["inner_directory_scanned_as_its_own_root"] = out["stats"].get("inner_directory_scanned_as_its_own_root", 0) + 1
                    case2 = dict(dirs=[list(x) for x in dirs2], files={scan.dotted(f): (scan.render_v(v) if v["py"] else None) for f, v in files2.items()}, module_path=[d0[-1]],
                                 scanned_before_from_outer_root=scan.dotted(d0))
                    exp2 = expected_modules(dirs2, files2, (d0[-1],))
                    if r2[0] != "OK":
                        out["violations"].append((dict(case2, error=r2[1]), f"scan of the inner directory {scan.dotted(d0)} as its own root failed: {r2[1]}", {"kind": "scan_error"}))
                    elif r2[1] != exp2:
                        out["violations"].append((dict(case2, modules=r2[1], documented=exp2), f"the inner directory {scan.dotted(d0)} scanned as its own root (after scans from the outer root): modules differ from the directory tree", {"kind": "modules"}))
                    else:
                        cases.append(scan.model_scan_case(enc, d0[-1], dirs2, files2, (d0[-1],)))
                        metas.append(((d0[-1],), r2[1], r2[2], case2))
            # the same project scanned from a root_path far above it: a directory directly below "/" (module_path = the project
            # directory).  Names start with that root directory's name; nothing else changes.
            parts = list(os.path.normpath(str(base)).split(os.sep))[1:]
            if whole[0] == "OK" and not xk and rng.random() < 0.3 and not getattr(dirs, "links", None) \
                    and not any(v.get("link_to") for v in files.values()) and all(pc and "." not in pc for pc in parts):
                from pytestarch import get_evaluable_architecture
                for far_root, pre in (("/" + parts[0], parts),):      # ("/" itself has no directory name to start the names with: outside the claim)
                    try:
                        fa = rules.cpu_limited(lambda: get_evaluable_architecture(far_root, os.path.join(str(base), root)), 20)
                        fns, fes = rules.observe(fa, [], [])
                        far = ("OK", sorted(fns), sorted(set(fes)))
                    except Exception as e:  # noqa: BLE001
                        far = ("ERR", type(e).__name__ + ": " + str(e)[:200])
                    out["n"] += 1
                    out["stats"]["scanned_from_a_root_far_above"] = out["stats"].get("scanned_from_a_root_far_above", 0) + 1
                    px = ".".join(pre) + "."
                    exp_m = sorted({px + m0 for m0 in whole[1]} | {".".join(pre[:i0]) for i0 in range(1, len(pre) + 1)})
                    exp_e = sorted({(px + a0, px + b0) for a0, b0 in whole[2]})
                    casef = dict(dirs=[list(d) for d in dirs], files={scan.dotted(f): (scan.render_v(v) if v["py"] else None) for f, v in files.items()},
                                 module_path=[root], root_path=far_root)
                    if far[0] != "OK":
                        out["violations"].append((dict(casef, error=far[1]), f"scan with root_path {far_root!r} far above the project failed: {far[1]}", {"kind": "scan_error"}))
                    elif far[1] != exp_m or far[2] != exp_e:
                        out["violations"].append((dict(casef, modules_missing=sorted(set(exp_m) - set(far[1]))[:10], modules_surplus=sorted(set(far[1]) - set(exp_m))[:10],
                                                       imports_missing=sorted(set(exp_e) - set(far[2]))[:10], imports_surplus=sorted(set(far[2]) - set(exp_e))[:10]),
                                                  f"the project scanned with root_path {far_root!r}: modules / imports are not those of the scan from the project directory under the longer names", {"kind": "far_root"}))
            res = common.model_run(cases)
            for (mp, mods, edges, case), w, m in zip(metas, cases, res):
                d = scan.dec_scan(enc, m)
                if d is None or d[0] != "OK" or d[1] != mods or d[2] != edges:
                    out["disagreements"].append((dict(case, impl_modules=mods, impl_edges=edges, model=str(d)[:600]), f"model scan and real scan differ for module_path {scan.dotted(mp)}"))
            if not out["pairs"] and cases:
                out["pairs"].append((cases[0], res[0]))
            if not out["samples"]:
                out["samples"].append(dict(dirs=[scan.dotted(d) for d in dirs], files=[scan.dotted(f) for f in files], module_paths=len(dirs)))
        finally:
            scan.cleanup(base)
    return common.tag_job(out, __name__, "_job", list(args))


def module_object_entry_point(ctx, n):
    """get_evaluable_architecture_for_module_objects == get_evaluable_architecture."""
    from pytestarch import get_evaluable_architecture_for_module_objects
    for it in range(n):
        rng = ctx.rng
        _counter[0] += 1
        root = f"pk{os.getpid()}x{_counter[0]}"
        _, dirs, files = scan.gen_tree(rng, max_depth=4, root=root, with_init=False)
        scan.gen_imports(rng, dirs, files, nested=True)
        mp = rng.choice(dirs)
        for i in range(1, len(mp) + 1):
            files[mp[:i] + ("__init__",)] = {"py": True, "body": []}      # really importable, nothing executed
        base = scan.materialise(dirs, files)
        sys.path.insert(0, str(base))
        importlib.invalidate_caches()
        try:
            rootmod = importlib.import_module(root)
            mod = importlib.import_module(scan.dotted(mp))
            # the same options through both entry points: none, a custom exclusion, externals kept, a level limit - and
            # byte-code cache directories in the tree (importing the packages normally creates them)
            for d0 in rng.sample(dirs, min(len(dirs), 2)):
                os.makedirs(os.path.join(str(base), *d0, "__pycache__"), exist_ok=True)
                open(os.path.join(str(base), *d0, "__pycache__", "x.cpython-312.pyc"), "wb").close()
            kw = rng.choice([{}, {}, {"exclusions": ("*zz_nothing*",)}, {"exclusions": ("*" + rng.choice(sorted({f[-1] for f in files})) + ".py",)},
                             {"exclude_external_libraries": False}, {"level_limit": rng.randint(1, 3)},
                             {"exclusions": ("*__pycache__*", "*" + rng.choice(sorted({f[-1] for f in files})) + "*")}])
            try:
                arch = get_evaluable_architecture_for_module_objects(rootmod, mod, **kw)
                a = ("OK", sorted(arch.modules), sorted(set(rules.observe(arch, [], [])[1])))
            except Exception as e:  # noqa: BLE001
                a = ("ERR", type(e).__name__, str(e)[:200])
            b = scan.real_scan(base, root, mp, **kw)[:3]
            if a[0] == "ERR" and b[0] == "ERR":
                a, b = ("ERR", a[1]), ("ERR", b[1].split(":", 1)[0])      # both entry points reject: same exception type required
            ctx.evaluations += 1
            if a != b:
                ctx.violation(dict(dirs=[list(d) for d in dirs], files=sorted(scan.dotted(f) for f in files), module_path=list(mp), options={k0: list(v0) if isinstance(v0, tuple) else v0 for k0, v0 in kw.items()},
                                   module_objects=str(a)[:400], paths=str(b)[:400]),
                              "module-object entry point builds a different architecture than the path entry point", {"kind": "entry_point"})
            ctx.mark_nontrivial(("mo", root))
        finally:
            sys.path.remove(str(base))
            for k in [k for k in sys.modules if k == root or k.startswith(root + ".")]:
                del sys.modules[k]
            scan.cleanup(base)


def deep_nesting_stream(ctx, n):
    """A chain of 22-30 nested packages with a module at the bottom and one half-way: every directory and file is a module,
    however deep - from the root and from a directory half-way down."""
    import shutil
    from pytestarch import get_evaluable_architecture
    for it in range(n):
        rng = ctx.rng
        depth = rng.choice([22, 25, 30])
        d = common.scratch_dir()
        try:
            comps = ["p%02d" % i for i in range(1, depth + 1)]
            cur = d / "proj"
            cur.mkdir()
            names = ["proj"]
            for i, c in enumerate(comps):
                cur = cur / c
                cur.mkdir()
                names.append(names[-1] + "." + c)
                if i == depth // 2:
                    (cur / "mid.py").write_text("import proj\n")
                    mid_dir, mid_name = cur, names[-1]
            (cur / "leaf.py").write_text("from " + mid_name + " import mid\n")
            exp = set(names) | {names[-1] + ".leaf", mid_name + ".mid"}
            for rp, mpp, what in ((d / "proj", d / "proj", "root"), (d / "proj", mid_dir, "half-way down")):
                try:
                    arch = get_evaluable_architecture(str(rp), str(mpp))
                    ns, es = rules.observe(arch, [], [])
                    got = ("OK", set(ns), set(es))
                except Exception as e:  # noqa: BLE001
                    got = ("ERR", type(e).__name__ + ": " + str(e)[:200])
                ctx.evaluations += 1
                ctx.stat("deeply_nested_chain")
                want = exp if what == "root" else {x for x in exp if x.startswith(mid_name + ".") or mid_name.startswith(x + ".") or x == mid_name}
                if got[0] != "OK":
                    ctx.violation(dict(depth=depth, module_path=what, error=got[1]), f"scan of a chain of {depth} nested packages failed: {got[1]}", {"kind": "scan_error"})
                elif got[1] != want or (names[-1] + ".leaf", mid_name + ".mid") not in got[2]:
                    ctx.violation(dict(depth=depth, module_path=what, missing=sorted(want - got[1])[:6], surplus=sorted(got[1] - want)[:6], leaf_import_present=(names[-1] + ".leaf", mid_name + ".mid") in got[2]),
                                  f"a chain of {depth} nested packages scanned from {what}: modules differ from the directory tree / the import written at the bottom is lost", {"kind": "modules"})
            ctx.mark_nontrivial(("deep", depth))
        finally:
            shutil.rmtree(d, ignore_errors=True)


def run(ctx: Ctx):
    deep_nesting_stream(ctx, 3 if ctx.quick else 20)
    n = 240 if ctx.quick else 6000
    per = 15
    jobs = [(ctx.rng.randrange(1 << 30), per) for _ in range(n // per)]
    with Pool(NCPU) as pool:
        rs = pool.map(_job, jobs, chunksize=1)
    for r in rs:
        rules.merge_into(ctx, r)
    module_object_entry_point(ctx, 40 if ctx.quick else 800)
    ctx.stat("trees", n)
    ctx.rule = (f"{n} random directory trees (depth <= 5, packages with and without __init__.py, sibling names that are string prefixes of each other, directories without .py files, non-.py files; "
                "imports fully qualified, relative, and absolute relative to a directory's parent) x EVERY directory as module_path through the path entry point; "
                "modules compared with the tree (python oracle), sub-module sets with name extension, sub scan with the whole-root scan restricted to the sub-tree, everything with the model scan; "
                "module-object entry point on really imported packages vs path entry point; non-trivial = scans with more than 3 modules")


def replay(ctx: Ctx, path: str) -> int:
    r = json.load(open(path))
    c = r["case"]
    dirs = [tuple(d) for d in c["dirs"]]
    files = {}
    sources = {}
    for k, src in c["files"].items():
        t = tuple(k.split("."))
        files[t] = {"py": src is not None, "body": []}
        if src is not None:
            sources[t] = src
    base = scan.materialise(dirs, files, sources)
    try:
        mp = tuple(c["module_path"])
        res = scan.real_scan(base, dirs[0][0], mp)
        exp = expected_modules(dirs, files, mp)
        print("scan:", res[0], res[1] if res[0] == "OK" else res[1])
        print("documented modules:", exp)
        if res[0] != "OK" or res[1] != exp:
            print(f"VIOLATION property=C04 replay={path}")
            return 1
        return 0
    finally:
        scan.cleanup(base)
