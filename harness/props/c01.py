"""C01 — module-rule verdicts equal the documented semantics."""
from __future__ import annotations

import json
import random
from multiprocessing import Pool

from harness import rules
from harness.common import Ctx, NCPU

LINES = False
PID = "C01"


def _small(args):
    tree_idx, idxs, lines = args
    return rules.check_rule_cases(rules.gen_small_cases(tree_idx, idxs), use_oracle=True, lines=lines)


def _rand(args):
    seed, n, strict, mode, lines = args
    rng = random.Random(seed)
    return rules.check_rule_cases(rules.gen_random_cases(rng, n, strict, mode), use_oracle=True, lines=lines)


def _queries(args):
    seed, n = args
    return rules.check_query_cases(random.Random(seed), n)


def interpreter_flags(ctx, n_cases):
    """Verdicts and messages must not depend on how the interpreter was started: the deterministic battery of C15 (module rules,
    layer rules, diagram rules; verdict, message, error text) is run in fresh interpreters without flags, with -O and with -OO
    (assert statements compiled away, docstrings dropped); the three digests must coincide."""
    import os
    import subprocess
    import sys
    from harness import common
    battery_seed = ctx.rng.randrange(1 << 30)
    outs = {}
    for flag in ("", "-O", "-OO"):
        env = dict(os.environ, PYTHONHASHSEED="0", PYTHONPATH=str(common.REPO / "src"))
        env.pop("PYTHONOPTIMIZE", None)
        cmd = [sys.executable, "-B"] + ([flag] if flag else []) + [str(common.VERIF / "harness" / "seed_battery.py"), str(battery_seed), str(n_cases)]
        p = subprocess.run(cmd, capture_output=True, text=True, env=env, timeout=1200)
        outs[flag or "no flag"] = p.stdout.strip() if p.returncode == 0 else "crashed: " + p.stderr[-300:]
    ctx.evaluations += sum(int(v.split()[1]) for v in outs.values() if len(v.split()) == 2 and v.split()[1].isdigit())
    ctx.stat("interpreter_flag_batteries", len(outs))
    if len(set(outs.values())) > 1:
        first = None
        try:
            from harness.props import c15
            bad = next(f for f in ("-O", "-OO") if outs[f] != outs["no flag"])
            first = c15.hash_seed_difference(battery_seed, n_cases, 0, 0, flags=("", bad))
            if first:
                first["what"] = first["what"].replace("under PYTHONHASHSEED=0 and", "without flags and").replace("under 0", "under " + bad).replace("under both seeds", "with and without " + bad)
        except Exception:  # noqa: BLE001
            pass
        ctx.violation(dict(battery_seed=battery_seed, n_cases=n_cases, digests=outs, first_difference=first),
                      "verdicts / messages differ when the interpreter runs with -O / -OO" + (f": {first['what']}" if first else ""), {"kind": "interpreter_flags"})


def run(ctx: Ctx, lines=LINES):
    rules.MEMBER_SPELLING = not lines        # C01 reads verdicts only; C03 (lines=True) reads the message texts
    interpreter_flags(ctx, 12 if ctx.quick else 120)
    jobs_small = []
    for t in range(len(rules.SMALL_TREES)):
        if ctx.quick:
            idxs = sorted(ctx.rng.sample(range(4096), 64))
        else:
            idxs = list(range(4096))
        for i in range(0, len(idxs), 16):
            jobs_small.append((t, idxs[i:i + 16], lines))
    n_rand = 1800 if ctx.quick else 60000
    n_scan = 320 if ctx.quick else 4000
    jobs_rand = []
    per = 100
    for i in range(n_rand // per):
        jobs_rand.append((ctx.rng.randrange(1 << 30), per, i % 3 != 2, "direct", lines))
    for i in range(n_scan // 40):
        jobs_rand.append((ctx.rng.randrange(1 << 30), 40, i % 2 == 0, "scan", lines))
    for i in range(4 if ctx.quick else 60):
        jobs_rand.append((ctx.rng.randrange(1 << 30), 100, False, "alias_nested", lines))
    for i in range(4 if ctx.quick else 80):
        jobs_rand.append((ctx.rng.randrange(1 << 30), 50, i % 3 != 2, "limited", lines))
    for i in range(6 if ctx.quick else 200):
        jobs_rand.append((ctx.rng.randrange(1 << 30), 50, i % 3 != 2, "forest", lines))
    for i in range(2 if ctx.quick else 20):
        jobs_rand.append((ctx.rng.randrange(1 << 30), 30, True, "twins", lines))
    for i in range(1 if ctx.quick else 16):
        jobs_rand.append((ctx.rng.randrange(1 << 30), 1 if ctx.quick else 2, i % 2 == 0, "big" if ctx.quick else "huge", lines))
    n_large = 160 if ctx.quick else 6000
    for i in range(n_large // 20):
        jobs_rand.append((ctx.rng.randrange(1 << 30), 20, i % 3 != 2, "large", lines))
    with Pool(NCPU) as pool:
        rs = pool.map(_small, jobs_small, chunksize=1)
        rr = pool.map(_rand, jobs_rand, chunksize=1)
    for r in rs + rr:
        rules.merge_into(ctx, r)
    # the three public graph queries themselves: real code vs comprehension model vs worklist model
    n_q = 600 if ctx.quick else 20000
    with Pool(NCPU) as pool:
        rq = pool.map(_queries, [(ctx.rng.randrange(1 << 30), n_q // 20) for _ in range(20)], chunksize=1)
    for r in rq:
        rules.merge_into(ctx, r)
    ctx.exhaustive = not ctx.quick
    ctx.stat("small_graphs", sum(len(j[1]) for j in jobs_small))
    ctx.stat("random_graphs", n_rand)
    ctx.stat("scanned_graphs", n_scan)
    ctx.rule = ("three 5-node trees x " + ("all 4096" if not ctx.quick else "a seeded 64-subset of the 4096") +
                " import relations from the three leaves x every strict (pairwise unrelated) subject/object split (both filter kinds) x 12 shapes + 2 aliases; "
                "random trees <=13 nodes (collision-free and adversarial component names; 1/3 with related filters) through the graph constructor, "
                "real scanned file trees, level-limited architectures (oracle on the quotient graph), 'anything' rules whose named subjects include a package together with its own sub modules (3-6 subjects, names of mixed length), and large trees (up to 45 modules, 7 levels, numbered / non-ASCII / very long names, up to 6 subjects x 6 objects, 30 imports); each rule evaluated by the real Rule API and by the extracted model; strict rules also against the documented-semantics oracle. "
                "additionally the three public graph queries (get_dependencies and the two 'other' queries) on random graphs (some level-limited) x random filter lists (related or not, unknown names now and then): "
                "real result maps vs the comprehension model (fn 11-13) vs the worklist model (fn 31-33), as sets of imports per key. "
                "non-trivial = a graph on which the 14 shapes do not all give the same verdict")


def replay(ctx: Ctx, path: str) -> int:
    r = json.load(open(path))
    c = r["case"]
    spec = dict(c["spec"])
    for k in ("subj", "obj"):
        if spec.get(k) is not None:
            spec[k] = (spec[k][0], spec[k][1])
    case = dict(nodes=c["nodes"], edges=[tuple(e) for e in c["edges"]], specs=[spec], mode=c.get("mode", "direct"))
    rules.MEMBER_SPELLING = PID == "C01"
    out = dict(violations=[], disagreements=[])
    for _ in range(12):        # the argument spellings rotate with every rule built: one full rotation
        o = rules.check_rule_cases([case], use_oracle=True, lines=(PID != "C01"))
        out["violations"] += o["violations"]
        out["disagreements"] += o["disagreements"]
        if out["violations"]:
            break
    print(json.dumps({"violations": [v[1] for v in out["violations"]], "disagreements": [d[1] for d in out["disagreements"]]}, indent=1))
    if out["violations"] or out["disagreements"]:
        print(f"VIOLATION property={ctx.pid} replay={path}")
        return 1
    return 0
