"""C11 — regex / partial-name / batch = expansion.  Metamorphic on the real code
(compact rule vs expanded rule), plus model agreement on every evaluation."""
from __future__ import annotations

import json
import random
import re
from multiprocessing import Pool

from harness import rules, common
from harness.common import Ctx, NCPU, s2n


# identifiers with letters outside ASCII (legal module names)
NONASCII = ["gr\u00f6\u00dfe_svc", "z\u00e4hler", "caf\u00e9", "\u03b4elta", "\u00df_mod", "pkg_\u00e9", "a", "ab", "\u044f"]


def regex_pool(rng, nodes):
    """Regexes drawn from the graph's own names."""
    n1, n2 = rng.choice(nodes), rng.choice(nodes)
    last = n1.split(".")[-1]
    parent = n1.rsplit(".", 1)[0] if "." in n1 else n1
    cands = [
        re.escape(n1) + "$",                               # anchored name
        re.escape(n1),                                     # prefix (match is anchored at the start only)
        re.escape(n1) + r"(\..*)?$",                       # module and descendants
        re.escape(n1) + "$|" + re.escape(n2) + "$",        # alternation
        re.escape(parent) + r"\.[a-zA-Z_]\w*$",            # character classes: direct children
        re.escape(parent) + r"\.[" + re.escape(last[0]) + r"]\w*$",
        r".*\." + re.escape(last) + "$",                   # by last component
        re.escape(parent) + r"\.\w+$",                      # \w, \b and (?i) are Unicode aware: module names need not be ASCII
        re.escape(parent) + r"\.\w*\b",
        "(?i)" + re.escape(n1.upper()) + "$",
        re.escape(n1) + r"\.nothing_here$",                # matches nothing
        r"zz.*",                                           # matches nothing
    ]
    return rng.choice(cands)


def glob_pool(rng, nodes):
    n1 = rng.choice(nodes)
    last = n1.split(".")[-1]
    # ... and partial names whose TEXT contains characters a shell glob would read as wildcards (an inner star, ?, [..]): the
    # documented form is [*]text[*] with the text matched character by character
    inner_star = n1[:max(1, len(n1) // 2)] + "*" + n1[max(1, len(n1) // 2) + 1:]
    return rng.choice([n1, "*" + last, n1 + "*", "*" + last + "*", "*" + last[:1] + "*", "r.*", "*.zz", n1[:-1] + "*",
                       inner_star, n1[:-1] + "?", "*" + last[:-1] + "[" + last[-1] + "]", n1[:-1] + "[" + n1[-1] + "]*", "*" + last[:1] + "?" + last[2:] + "*"])


def _job(args):
    seed, n = args
    rng = random.Random(seed)
    conv = rules.partial_match_converter()
    cases, metas = [], []
    glob_cases = []
    while len(cases) < n:
        large = rng.random() < 0.1          # now and then beyond hand-written sizes
        pool = rules.LARGE_POOL if large else rng.choice((rules.COLLISION_FREE, rules.ADVERSARIAL, NONASCII))
        nodes = rules.rand_tree(rng, pool, max_nodes=rng.choice([25, 40]), max_depth=7) if large else rules.rand_tree(rng, pool, max_nodes=rng.choice([5, 8, 12]))
        edges = rules.rand_edges(rng, nodes, 25 if large else 8)
        arch_nodes = nodes  # direct constructor: modules are exactly the nodes
        kind = rng.choice(["regex_subj", "regex_obj", "glob_subj", "batch"])
        specs, groups = [], []
        if kind in ("regex_subj", "regex_obj", "glob_subj"):
            if kind == "glob_subj":
                pats = [glob_pool(rng, nodes) for _ in range(rng.randint(1, 2))]
                rxs = [conv(p) for p in pats]
                glob_cases.append((pats, nodes))
            else:
                rxs = [regex_pool(rng, nodes)]
            matches = [m for m in arch_nodes if any(re.match(rx, m) for rx in rxs)]
            all_matched = all(any(re.match(rx, m) for m in arch_nodes) for rx in rxs)
            other = (rng.choice(["named", "sub"]), rng.sample([x for x in nodes if x != "r"] or nodes, 1))
            for v in rules.VERBS:
                for imp in (True, False):
                    for exc in (False, True):
                        rside = ("regex", rxs)
                        part = {"_partial": {"subj": pats}} if kind == "glob_subj" else {}
                        if kind == "regex_obj":
                            compact = dict(subj=other, verbs=[v], imp=imp, exc=exc, obj=rside)
                            expanded = dict(subj=other, verbs=[v], imp=imp, exc=exc, obj=("named", matches))
                        else:
                            compact = dict(subj=rside, verbs=[v], imp=imp, exc=exc, obj=other, **part)
                            expanded = dict(subj=("named", matches), verbs=[v], imp=imp, exc=exc, obj=other)
                        i = len(specs)
                        specs += [compact, expanded]
                        groups.append(("expansion", i, i + 1, all_matched))
        else:
            fp = rules.pick_filters(rng, nodes, strict=rng.random() < 0.4, kmax=6 if large else 3)
            if fp is None:
                continue
            S, O = fp
            for v in rules.VERBS:
                for imp in (True, False):
                    for exc in (False, True):
                        i = len(specs)
                        specs.append(dict(subj=S, verbs=[v], imp=imp, exc=exc, obj=O))
                        singles = []
                        for s in S[1]:
                            singles.append(len(specs))
                            specs.append(dict(subj=(S[0], [s]), verbs=[v], imp=imp, exc=exc, obj=O))
                        groups.append(("batch_subjects", i, singles, None))
                        if not exc and v != "should_only":
                            singles = []
                            for o in O[1]:
                                singles.append(len(specs))
                                specs.append(dict(subj=S, verbs=[v], imp=imp, exc=exc, obj=(O[0], [o])))
                            groups.append(("batch_objects", i, singles, None))
        cases.append(dict(nodes=nodes, edges=edges, specs=specs, kind=kind))
        metas.append(groups)
    res = eval_multi_regex(cases)
    viol, disag, stats = [], [], {}
    n_eval = nontriv = 0
    pairs = []
    for c, groups, (rec, w, m) in zip(cases, metas, res):
        stats[c["kind"]] = stats.get(c["kind"], 0) + 1
        for spec, (io, mo) in zip(c["specs"], rec):
            n_eval += 1
            stats["impl_" + io[0]] = stats.get("impl_" + io[0], 0) + 1
            if not rules.same_verdict(io, mo) or not rules.same_lines(io, mo):
                disag.append((dict(nodes=c["nodes"], edges=c["edges"], spec=rules._jsonable_spec(spec), impl=[io[0], io[1][:300]], model=[mo[0], rules._jsonable_lines(mo[1])]),
                              f"model and implementation differ: impl={io[0]} model={mo[0]} {rules.spec_key(spec)}"))
        seen = set()
        for g in groups:
            if g[0] == "expansion":
                _, i, j, all_matched = g
                a, b = rec[i][0], rec[j][0]
                seen.add(a[0])
                case = dict(nodes=c["nodes"], edges=c["edges"], compact=rules._jsonable_spec(c["specs"][i]), expanded=rules._jsonable_spec(c["specs"][j]), impl_compact=[a[0], a[1][:300]], impl_expanded=[b[0], b[1][:300]])
                if not all_matched:
                    if a[0] != "ERR":
                        viol.append((case, f"a regex matching nothing produced the verdict {a[0]}", {"law": "no_match"}))
                else:
                    if a[0] != b[0] or (a[0] == "FAIL" and rules.parse_message(a[1]) != rules.parse_message(b[1])):
                        viol.append((case, f"regex rule {a[0]} but the rule naming all matching modules {b[0]}", {"law": "expansion"}))
            else:
                law, i, singles, _ = g
                a = rec[i][0]
                seen.add(a[0])
                conj = all(rec[j][0][0] == "PASS" for j in singles)
                if (a[0] == "PASS") != conj:
                    case = dict(nodes=c["nodes"], edges=c["edges"], batch=rules._jsonable_spec(c["specs"][i]), impl_batch=a[0], impl_singles=[rec[j][0][0] for j in singles])
                    viol.append((case, f"{law}: batch rule {a[0]} but single rules {[rec[j][0][0] for j in singles]}", {"law": law}))
        if len(seen) > 1:
            nontriv += 1
        if len(pairs) < 1:
            pairs.append(([10, [w[1][0], w[1][1], w[1][2][:14]]], m[:14]))
    # partial-name matcher: real re.match(convert(p), name) vs the model's glob_match
    gl_in, gl_ref = [], []
    for pats, nodes in glob_cases[:40]:
        for p in pats:
            for nm in nodes:
                gl_in.append([2, [s2n(p), s2n(nm)]])
                gl_ref.append((p, nm, re.match(conv(p), nm) is not None))
    for (p, nm, ref), mo in zip(gl_ref, common.model_run(gl_in)):
        n_eval += 1
        if ref != documented_partial_match(p, nm):
            # the documented meaning of a partial name decides: this pattern / name pair is the failing input
            viol.append((dict(partial_name=p, module=nm, library_matches=ref, documented=documented_partial_match(p, nm)),
                         f"have_name_containing({p!r}): the library {'selects' if ref else 'does not select'} the module {nm!r}, the documented partial-name form says otherwise", {"law": "partial_name_match"}))
        elif bool(mo) != ref:
            disag.append((dict(pattern=p, name=nm, impl=ref, model=mo), f"partial-name match differs for {p!r} on {nm!r}"))
    sample = dict(nodes=cases[0]["nodes"], edges=cases[0]["edges"], kind=cases[0]["kind"], first_spec=rules._jsonable_spec(cases[0]["specs"][0]))
    return dict(n=n_eval, nontrivial=nontriv, stats=stats, violations=viol, disagreements=disag, pairs=pairs, samples=[sample])


def eval_multi_regex(cases):
    """eval_cases, but a 'regex' side may carry several patterns.  Several regex filters on one side can only be produced by
    have_name_containing (one regex filter per partial name): the rule object is built through that public call with the
    partial names the patterns were converted from (spec['_partial'][side]); the model is handed the converted regexes."""
    orig_build = rules.build_rule

    def build(spec):
        partial = spec.get("_partial") or {}
        if not partial:
            return orig_build(spec)
        s2 = {k: v for k, v in spec.items() if k != "_partial"}
        for k, pats in partial.items():
            s2[k] = ("containing", list(pats))
        return orig_build(s2)
    rules.build_rule = build
    try:
        return rules.eval_cases(cases)
    finally:
        rules.build_rule = orig_build


def same_rule_object_on_other_architectures(ctx: Ctx, n: int):
    """The expansion of a regex is that of the architecture the rule is applied to: one rule object applied to several
    architectures (pattern matching different modules, or none) must give, on each, the verdict of the rule that names the
    modules the regex matches THERE."""
    import re
    for _ in range(n):
        rng = ctx.rng
        nodes = rules.rand_tree(rng, rng.choice((rules.COLLISION_FREE, rules.ADVERSARIAL)), max_nodes=10)
        edges = rules.rand_edges(rng, nodes)
        cand = [x for x in nodes if x != "r"]
        if len(cand) < 3:
            continue
        stem = rng.choice(cand)
        pat = re.escape(stem) + (".*" if rng.random() < 0.7 else r"(\..*)?$")
        plain = rng.choice([x for x in cand if x != stem])
        variants = [nodes, [x for x in nodes if x != stem], [x for x in nodes if not re.match(pat, x)] or ["r"], nodes]
        archs = [(v, rules.make_arch_direct(v, [(a, b) for a, b in edges if a in v and b in v])) for v in variants]
        for spec in rules.all_shapes(("regex", [pat]), ("named", [plain]), with_aliases=False)[::3]:
            robj = rules.build_rule(spec)
            for k, (v, a_) in enumerate(archs):
                got = rules.run_rule(robj, a_)
                present = sorted(a_.modules)         # the architecture adds the ancestors of its modules: match against what it really holds
                matched = [x for x in present if re.match(pat, x)]
                ctx.evaluations += 1
                if not matched or plain not in present:
                    exp = "ERR"
                else:
                    exp = rules.run_rule(rules.build_rule(dict(spec, subj=("named", matched))), a_)[0]
                if got[0] != exp:
                    ctx.violation(dict(nodes=nodes, edges=edges, pattern=pat, spec=rules._jsonable_spec(spec), architecture=v, reused_rule_object=got[0], expansion=exp),
                                  f"rule object with regex {pat!r} applied to architecture #{k}: {got[0]}, its expansion there: {exp}", {"kind": "regex_other_architecture"})
                    break
        ctx.mark_nontrivial(("reapply", pat, tuple(nodes)))


def regex_with_anything(ctx: Ctx, n: int):
    """'should not import / be imported by anything' with the subject given by a regex vs naming the modules the regex matches.
    Known finding K3: when the regex matches a module together with its own sub modules the two differ (named lists are
    reduced to their top-most modules when the alias is rewritten, regex matches are not)."""
    import re
    for _ in range(n):
        rng = ctx.rng
        nodes = rules.rand_tree(rng, rng.choice((rules.COLLISION_FREE, rules.ADVERSARIAL)), max_nodes=10)
        edges = rules.rand_edges(rng, nodes, 10)
        cand = [x for x in nodes if x != "r"]
        if len(cand) < 2:
            continue
        stem = rng.choice(cand)
        pat = rng.choice([re.escape(stem) + ".*", re.escape(stem) + "$", "(" + "|".join(re.escape(x) + "$" for x in rng.sample(cand, min(len(cand), 3))) + ")"])
        matched = [x for x in nodes if re.match(pat, x)]
        if not matched:
            continue
        arch = rules.make_arch_direct(nodes, edges)
        rel = any(rules.related(a, b) for a in matched for b in matched if a != b)
        # the model is faithful to the code here (K3 included): a change of behaviour inside the known-finding class still shows
        # as a model / implementation disagreement
        both = [dict(subj=("regex", [pat]), verbs=["should_not"], imp=imp, anything=True) for imp in (True, False)] + \
               [dict(subj=("named", matched), verbs=["should_not"], imp=imp, anything=True) for imp in (True, False)]
        (rec_m, _w, _m), = rules.eval_cases([dict(nodes=nodes, edges=edges, specs=both)])
        for spec_m, (io_m, mo_m) in zip(both, rec_m):
            if not rules.same_verdict(io_m, mo_m) or not rules.same_lines(io_m, mo_m):
                ctx.disagreement(dict(nodes=nodes, edges=edges, spec=rules._jsonable_spec(spec_m), impl=[io_m[0], io_m[1][:200]], model=mo_m[0]),
                                 f"model and implementation differ on an 'anything' rule: impl={io_m[0]} model={mo_m[0]}")
        for imp in (True, False):
            compact = dict(subj=("regex", [pat]), verbs=["should_not"], imp=imp, anything=True)
            expanded = dict(subj=("named", matched), verbs=["should_not"], imp=imp, anything=True)
            a = rules.run_rule(rules.build_rule(compact), arch)
            b = rules.run_rule(rules.build_rule(expanded), arch)
            ctx.evaluations += 2
            ctx.stat("regex_anything_" + ("related_matches" if rel else "unrelated_matches"))
            if a[0] != b[0] or (a[0] == "FAIL" and rules.parse_message(a[1]) != rules.parse_message(b[1])):
                ctx.violation(dict(nodes=nodes, edges=edges, pattern=pat, matched=matched, imp=imp, regex_rule=[a[0], a[1][:200]], named_rule=[b[0], b[1][:200]]),
                              f"'should not {'import' if imp else 'be imported by'} anything' with regex {pat!r}: {a[0]}; naming its matches {matched}: {b[0]}",
                              {"kind": "regex_alias", "regex_matches_related_modules": rel})
        ctx.mark_nontrivial(("rxany", pat, tuple(nodes)))


def documented_partial_match(p: str, name: str) -> bool:
    """Partial names as documented, with no regex involved: the text is compared character by character, a leading *
    admits any prefix, a trailing * any suffix."""
    st, en = p.startswith("*"), p.endswith("*") and len(p) > 1
    text = p[(1 if st else 0):(len(p) - 1 if en else len(p))]
    if st and en:
        return text in name
    if st:
        return name.endswith(text)
    if en:
        return name.startswith(text)
    return name == text


def partial_names_stream(ctx: Ctx, n: int):
    """have_name_containing on the real code vs naming the modules the partial names match by their documented,
    character-by-character meaning (no regex and none of the library's conversion in the expectation).  The graphs contain
    lookalikes for which a regex reading of the text differs from the literal one: 'r.a.b' vs 'r.axb' (the dot), 'r.a+' etc."""
    for _ in range(n):
        rng = ctx.rng
        nodes = rules.rand_tree(rng, rng.choice((rules.COLLISION_FREE, rules.ADVERSARIAL)), max_nodes=rng.choice([6, 9, 12]))
        cand = [x for x in nodes if x != "r" and "." in x]
        if len(cand) < 2:
            continue
        base = rng.choice(cand)
        comps = base.split(".")
        # a sibling whose name reads like base's text with the dot replaced by a letter: r.a.b -> r.axb / r.xa.b
        k = rng.randrange(1, len(comps))
        look = ".".join(comps[:k - 1] + [comps[k - 1] + "x" + comps[k]] + comps[k + 1:])
        look2 = ".".join(comps[:-1] + ["x" + comps[-1]])
        extra = [x for x in (look, look2) if x not in nodes and x.startswith("r")]
        nodes = sorted(set(nodes) | set(extra) | {".".join(x.split(".")[:i]) for x in extra for i in range(1, len(x.split(".")))})
        edges = rules.rand_edges(rng, nodes, 10)
        last, tail = comps[-1], ".".join(comps[-2:])
        pats_pool = [base, "*" + last, base + "*", "*" + last + "*", "*." + last, "*." + last + "*", "*." + last[:1] + "*", "*" + tail, "*" + tail + "*",
                     "*" + tail[:-1] + "*", base[:-1] + "*", "r.*", "*.zz", "*" + comps[-2] + "." + "*", "*.*", "*" + last + ".*"]
        pats = rng.sample(pats_pool, rng.randint(1, 2))
        per_pat = [[m for m in nodes if documented_partial_match(p, m)] for p in pats]
        matched = sorted({m for ms in per_pat for m in ms})
        all_matched = all(per_pat)
        arch = rules.make_arch_direct(nodes, edges)
        other = (rng.choice(["named", "sub"]), [rng.choice([x for x in nodes if x != "r"])])
        side = rng.choice(["subj", "obj"])
        ctx.stat("partial_" + ("all_patterns_match" if all_matched else "some_pattern_matches_nothing"))
        if any(x in matched for x in extra) != any(documented_partial_match(p, base) for p in pats):
            ctx.stat("partial_lookalike_separated")
        for spec in rules.all_shapes(("named", ["r"]), other, with_aliases=False)[::2]:
            if side == "subj":
                compact, expanded = dict(spec, subj=("containing", pats), obj=other), dict(spec, subj=("named", matched), obj=other)
            else:
                compact, expanded = dict(spec, subj=other, obj=("containing", pats)), dict(spec, subj=other, obj=("named", matched))
            a = rules.run_rule(rules.build_rule(compact), arch)
            ctx.evaluations += 1
            case = dict(nodes=nodes, edges=edges, partial_names=pats, documented_matches=matched, compact=rules._jsonable_spec(compact), expanded=rules._jsonable_spec(expanded), impl_compact=[a[0], a[1][:300]])
            if not all_matched:
                if a[0] != "ERR":
                    ctx.violation(case, f"partial names {pats}, one of which matches no module, produced the verdict {a[0]}", {"kind": "partial_no_match"})
                    break
                continue
            b = rules.run_rule(rules.build_rule(expanded), arch)
            ctx.evaluations += 1
            case["impl_expanded"] = [b[0], b[1][:300]]
            if a[0] != b[0] or (a[0] == "FAIL" and rules.parse_message(a[1]) != rules.parse_message(b[1])):
                ctx.violation(case, f"have_name_containing({pats}) {a[0]} but naming the modules these partial names stand for ({matched}) {b[0]}", {"kind": "partial_expansion"})
                break
        ctx.mark_nontrivial(("partial", tuple(pats), tuple(nodes)))


def run(ctx: Ctx):
    partial_names_stream(ctx, 200 if ctx.quick else 5000)
    same_rule_object_on_other_architectures(ctx, 150 if ctx.quick else 4000)
    regex_with_anything(ctx, 150 if ctx.quick else 4000)
    n_graphs = 2000 if ctx.quick else 40000
    per = 50
    jobs = [(ctx.rng.randrange(1 << 30), per) for _ in range(n_graphs // per)]
    with Pool(NCPU) as pool:
        rs = pool.map(_job, jobs, chunksize=1)
    for r in rs:
        rules.merge_into(ctx, r)
    ctx.stat("graphs", n_graphs)
    ctx.rule = (f"{n_graphs} random graphs; per graph one of: regex as subject / as object (anchored names, prefixes, alternations, character classes, "
                "non-matching patterns, built from the graph's own names), partial names (converted by the real converter) as subject, or a batch of 1-3 subjects x 1-3 objects "
                "(related modules allowed); x 12 shapes; compact rule vs expanded rule(s) both run on the real code (verdict and parsed report), every evaluation compared with the model "
                "(regex truth table from the real re.match); partial-name matching also compared with the model's glob matcher; one rule object with a regex applied to 4 architectures in which the pattern matches different modules or nothing, each outcome compared with the expansion on that architecture; "
                "non-trivial = graph whose shapes give different verdicts")


def replay(ctx: Ctx, path: str) -> int:
    r = json.load(open(path))
    c = r["case"]

    def fix(spec):
        s = dict(spec)
        for k in ("subj", "obj"):
            if s.get(k) is not None:
                s[k] = (s[k][0], s[k][1])
        return s
    if "architecture" in c and "pattern" in c:
        import re
        v = c["architecture"]
        arch = rules.make_arch_direct(v, [tuple(e) for e in c["edges"] if e[0] in v and e[1] in v])
        present = sorted(arch.modules)
        matched = [x for x in present if re.match(c["pattern"], x)]
        spec = fix(c["spec"])
        got = rules.run_rule(rules.build_rule(spec), arch)
        side = "subj" if spec["subj"][0] == "regex" else "obj"
        plain_ok = all(n in present for n in (spec["obj"] if side == "subj" else spec["subj"])[1])
        exp = "ERR" if not matched or not plain_ok else rules.run_rule(rules.build_rule(dict(spec, **{side: ("named", matched)})), arch)[0]
        print("regex rule:", got[0], "expansion on this architecture:", exp, "matches:", matched)
        if got[0] != exp:
            print(f"VIOLATION property=C11 replay={path}")
            return 1
        return 0
    if "partial_name" in c:
        conv = rules.partial_match_converter()
        lib = re.match(conv(c["partial_name"]), c["module"]) is not None
        doc = documented_partial_match(c["partial_name"], c["module"])
        print("partial name", repr(c["partial_name"]), "module", repr(c["module"]), "library selects:", lib, "documented:", doc)
        if lib != doc:
            print(f"VIOLATION property=C11 replay={path}")
            return 1
        return 0
    if "partial_names" in c:
        nodes, edges = c["nodes"], [tuple(e) for e in c["edges"]]
        arch = rules.make_arch_direct(nodes, edges)
        pats = c["partial_names"]
        per = [[m for m in nodes if documented_partial_match(p, m)] for p in pats]
        a = rules.run_rule(rules.build_rule(fix(c["compact"])), arch)
        if not all(per):
            bad = a[0] != "ERR"
            print(a[0], "(some partial name matches nothing: an error is expected)")
        else:
            b = rules.run_rule(rules.build_rule(dict(fix(c["expanded"]))), arch)
            print(a[0], b[0])
            bad = a[0] != b[0] or (a[0] == "FAIL" and rules.parse_message(a[1]) != rules.parse_message(b[1]))
        if bad:
            print(f"VIOLATION property=C11 replay={path}")
            return 1
        return 0
    specs = [fix(c[k]) for k in ("compact", "expanded", "batch") if k in c]
    res = eval_multi_regex([dict(nodes=c["nodes"], edges=[tuple(e) for e in c["edges"]], specs=specs)])
    outs = [io for (io, mo) in res[0][0]]
    print([o[0] for o in outs])
    if "compact" in c and (outs[0][0] != outs[1][0] or (outs[0][0] == "FAIL" and rules.parse_message(outs[0][1]) != rules.parse_message(outs[1][1]))):
        print(f"VIOLATION property=C11 replay={path}")
        return 1
    return 0
