"""C06 — PlantUML diagrams parse to exactly their components, aliases and arrows."""
from __future__ import annotations

import json
import random
from multiprocessing import Pool
from pathlib import Path

from harness import common, rules
from harness.common import Ctx, NCPU, s2n, n2s

NAMES = ["A", "B", "core", "api", "db_layer", "x1", "Service", "util", "m2", "m10", "cache", "auth", "Z9", "w", "queue", "mail",
         "gr\u00f6\u00dfe", "donn\u00e9es", "\u043c\u043e\u0434\u0435\u043b\u044c", "na\u00efve_2"]      # legal identifiers outside ASCII
DOTTED = ["app.\u043c\u043e\u0434\u0435\u043b\u044c", "src.gr\u00f6\u00dfe.x", "src.a", "src.b", "src.a.x", "pkg.core", "pkg.core.db", "app.ui", "src.app.core.domain.api", "src.app.core.domain.api.v2", "a.b.c.d.e.f.g", "org.example.project.subsystem.component.impl"]
ALIASES = ["a1", "c", "svc", "k9", "alias_b", "zz"]
NOISE_IN = ["' a comment", "title My Diagram", "skinparam monochrome true", "left to right direction", "hide empty members", "", "scale 2"]
NOISE_OUT = ["Some text before", "[Ghost] --> [Other]", "component Phantom", "# markdown heading", "", "see also the docs"]


def gen_diagram(rng):
    pool = rng.choice([NAMES, DOTTED, NAMES + DOTTED])
    if rng.random() < 0.12:
        pool = NAMES + DOTTED
        comps = rng.sample(pool, rng.randint(7, 14))          # now and then a large diagram
    else:
        comps = rng.sample(pool, rng.randint(2, min(6, len(pool))))
    alias = {}
    # aliases come from the dedicated pool AND from component names this diagram does not use: what is an alias here is an
    # ordinary component in another diagram parsed by the same interpreter (parsing must not remember earlier diagrams)
    free = list(ALIASES) + [x for x in NAMES if x not in comps]
    rng.shuffle(free)
    for c in comps:
        if rng.random() < 0.4 and free:
            alias[c] = free.pop()
    rel = set()
    for _ in range(rng.randint(0, 8) if len(comps) <= 6 else rng.randint(8, 25)):
        a, b = rng.choice(comps), rng.choice(comps)
        if a != b:
            rel.add((a, b))
    lines = []
    declared = set()
    alias2 = {}
    for c in comps:
        has_alias = c in alias
        # aliased components must be declared; others are declared with probability 1/2
        if has_alias or rng.random() < 0.5:
            form = rng.choice(["[n]", "component [n]"] if has_alias else ["[n]", "component n", "component [n]"])
            line = form.replace("n", "\x00").replace("\x00", c) if form != "component n" else "component " + c
            if form == "[n]":
                line = f"[{c}]"
            elif form == "component [n]":
                line = f"component [{c}]"
            if has_alias:
                line += f" as {alias[c]}"
            lines.append(line)
            declared.add(c)
            if has_alias and free and rng.random() < 0.2:
                # the same component declared a second time under ANOTHER alias: both aliases stand for it
                alias2[c] = free.pop()
                lines.append(f"{rng.choice(['', 'component '])}[{c}] as {alias2[c]}")

    def ref(c):
        forms = ["[n]", "n"] + (["alias"] if c in alias else []) + (["alias2", "alias"] if c in alias2 else [])
        f = rng.choice(forms)
        return f"[{c}]" if f == "[n]" else c if f == "n" else alias2[c] if f == "alias2" else alias[c]
    for a, b in sorted(rel):
        arrow = rng.choice(["-->", "->", "<--", "<-", "-uses->", "<-used_by-"])
        if arrow.startswith("<"):
            lines.append(f"{ref(b)} {arrow} {ref(a)}")
        else:
            lines.append(f"{ref(a)} {arrow} {ref(b)}")
        if rng.random() < 0.15:
            # the same arrow drawn a second time (each end spelt anew: by name, bracketed, by alias): drawing it twice states nothing new
            lines.append(f"{ref(a)} --> {ref(b)}")
    for _ in range(rng.randint(0, 3)):
        lines.append(rng.choice(NOISE_IN))
    rng.shuffle(lines)
    # layout of a line: indentation, trailing blanks, runs of blanks / tabs between the tokens (the same diagram to any reader)
    layout = rng.random() < 0.35
    if layout:
        def relayout(l):
            toks = l.split(" ")
            gap = lambda: rng.choice([" ", " ", "  ", "\t", " \t "])
            body = toks[0] + "".join(gap() + t for t in toks[1:])
            return rng.choice(["", "", "  ", "    ", "\t"]) + body + rng.choice(["", "", " ", "   ", "\t"])
        lines = [relayout(l) if l not in NOISE_IN else l for l in lines]
    before = [rng.choice(NOISE_OUT) for _ in range(rng.randint(0, 2))]
    after = [rng.choice(NOISE_OUT) for _ in range(rng.randint(0, 2))]
    text = "\n".join(before + ["@startuml"] + lines + ["@enduml"] + after) + rng.choice(["", "\n", "\n\n"])
    referenced = {x for e in rel for x in e}
    comps_expected = sorted(declared | referenced)
    return text, comps_expected, sorted(rel)


def parse_impl(text, d, i, eol="\n"):
    """`text` uses \\n; the file is written with the given line ends (the parser reads it in text mode with universal newlines,
    so the diagram is the same; the model is given `text`)."""
    from pytestarch.diagram_extension.diagram_parser import PumlParser
    p = Path(d) / f"d{i}.puml"
    with open(p, "w", encoding="utf-8", newline="") as fh:
        fh.write(text.replace("\n", eol))
    try:
        r = rules.cpu_limited(lambda: PumlParser().parse(p), 10)
        return ("OK", sorted(r.all_modules), sorted((a, b) for a, bs in r.dependencies.items() for b in bs))
    except AssertionError as e:
        return ("FAIL", str(e))
    except Exception as e:  # noqa: BLE001
        return ("ERR", type(e).__name__)


def _job(args):
    seed, n = args
    rng = random.Random(seed)
    out = dict(n=0, nontrivial=0, stats={}, violations=[], disagreements=[], pairs=[], samples=[])
    d = common.scratch_dir()
    try:
        texts, refs = [], []
        for i in range(n):
            if rng.random() < 0.06:
                # no tag pair: must be rejected with a parsing error
                body = rng.choice(["[A] --> [B]\n" + t for t in ("", "@startuml\n", "@enduml\n", "@enduml\n[A] -> [B]\n@startuml\n")] +
                                  ["@startuml\n[A] --> [B]\n", "@startuml\n[A] --> [B]\ncomponent [C]\nsome text after\n", "text\n@startuml\n[A] -> [B]",      # start tag, no end tag
                                   "[A] --> [B]\n@enduml\ntext\n", "@enduml\n@startuml\n[A] --> [B]\n",                                                  # end tag before / without start tag
                                   "@start uml\n[A] --> [B]\n@end uml\n", "startuml\n[A] --> [B]\nenduml\n"])                                             # misspelt tags
                r = parse_impl(body, d, i)
                out["n"] += 1
                if r != ("ERR", "PumlParsingError"):
                    out["violations"].append((dict(text=body, result=str(r)[:200]), "a file without a start/end tag pair was not rejected with a parsing error", {"kind": "tags"}))
                texts.append(body)
                refs.append((body, None, None, r))
                continue
            text, comps, rel = gen_diagram(rng)
            eol = rng.choice(["\n", "\n", "\n", "\r\n", "\r\n", "\r"])
            out["stats"]["eol_" + {"\n": "lf", "\r\n": "crlf", "\r": "cr"}[eol]] = out["stats"].get("eol_" + {"\n": "lf", "\r\n": "crlf", "\r": "cr"}[eol], 0) + 1
            if any(l != l.strip() or "\t" in l or "  " in l for l in text.split("\n")):
                out["stats"]["with_indentation_or_blank_runs"] = out["stats"].get("with_indentation_or_blank_runs", 0) + 1
            r = parse_impl(text, d, i, eol)
            out["n"] += 1
            if r[0] != "OK" or r[1] != comps or r[2] != rel:
                case = dict(text=text, line_ends=repr(eol), parsed=str(r)[:500], documented_components=comps, documented_relation=rel)
                if r[0] == "OK":
                    case.update(components_surplus=sorted(set(r[1]) - set(comps)), components_missing=sorted(set(comps) - set(r[1])),
                                arrows_surplus=sorted(set(r[2]) - set(rel)), arrows_missing=sorted(set(rel) - set(r[2])))
                out["violations"].append((case, "parsed components/arrows differ from the diagram", {"kind": "parse", "dotted": any("." in c for c in comps)}))
            if rel:
                out["nontrivial"] += 1
            texts.append(text)
            refs.append((text, comps, rel, r))
        res = common.model_run([[21, s2n(t)] for t in texts])
        for (text, comps, rel, r), m in zip(refs, res):
            if m is None:
                out["disagreements"].append((dict(text=text), "model could not read the case"))
                continue
            mo = ("ERR", "PumlParsingError") if m[0] == 0 else ("OK", sorted(n2s(x) for x in m[1]), sorted((n2s(a), n2s(b)) for a, b in m[2]))
            if mo != r:
                out["disagreements"].append((dict(text=text, impl=str(r)[:400], model=str(mo)[:400]), "model parser and real parser differ"))
        out["pairs"].append(([21, s2n(texts[0])], res[0]))
        out["samples"].append(dict(text=texts[0]))
    finally:
        import shutil
        shutil.rmtree(d, ignore_errors=True)
    return out


def run(ctx: Ctx):
    n = 3000 if ctx.quick else 100000
    per = 100
    jobs = [(ctx.rng.randrange(1 << 30), per) for _ in range(n // per)]
    with Pool(NCPU) as pool:
        rs = pool.map(_job, jobs, chunksize=1)
    for r in rs:
        rules.merge_into(ctx, r)
    ctx.stat("diagrams", n)
    ctx.rule = (f"{n} diagrams printed from a random component relation (2-6 components, single identifiers and fully qualified dotted names; 40% with aliases): per component one of the documented "
                "declaration forms ([n], component n, component [n], optionally 'as alias') or no declaration, per arrow one of -->, ->, <--, <-, -text->, <-text- with each end written bracketed, bare or "
                "by alias, lines shuffled, noise lines inside and text outside the tags; 6% files without a proper tag pair; real PumlParser vs the drawn components/relation and vs the model parser; "
                "non-trivial = diagram with at least one arrow")


def replay(ctx: Ctx, path: str) -> int:
    r = json.load(open(path))
    c = r["case"]
    d = common.scratch_dir()
    try:
        import ast as _ast
        res = parse_impl(c["text"], d, 0, _ast.literal_eval(c["line_ends"]) if "line_ends" in c else "\n")
        print(res)
        want = ("OK", c.get("documented_components"), [tuple(x) for x in c.get("documented_relation", [])]) if "documented_components" in c else ("ERR", "PumlParsingError")
        got = (res[0], res[1], res[2]) if res[0] == "OK" else res
        if got != want:
            print(f"VIOLATION property=C06 replay={path}")
            return 1
        return 0
    finally:
        import shutil
        shutil.rmtree(d, ignore_errors=True)
