"""C08 — exclusions.  Part (a): glob pattern language, exhaustive over a small
alphabet; the real converter + real FileFilter (re.match) against the model's
converter + matcher, and against the four-case property oracle directly."""
from __future__ import annotations

import itertools
import json
import re
from multiprocessing import Pool

from harness.common import Ctx, model_run, n2s, s2n, NCPU

PAT_ALPHA = "ab*.+/"
SUB_ALPHA = "ab*.+/\n"


def strings_upto(alpha: str, n: int) -> list[str]:
    out = []
    for k in range(n + 1):
        out.extend("".join(t) for t in itertools.product(alpha, repeat=k))
    return out


def glob_oracle(p: str, s: str) -> bool:
    """The property's own words: literal text in full, leading * any prefix, trailing * any suffix."""
    st, en = p.startswith("*"), p.endswith("*")
    text = p[(1 if st else 0):(len(p) - 1 if en else len(p))]
    if st and en:
        return text in s
    if st:
        return s.endswith(text)
    if en:
        return s.startswith(text)
    return s == text


def _impl_funcs():
    from pytestarch.eval_structure_generation.file_import.config import Config
    from pytestarch.eval_structure_generation.file_import.file_filter import FileFilter
    from pytestarch.utils.partial_match_to_regex_converter import convert_partial_match_to_regex
    return convert_partial_match_to_regex, FileFilter, Config


def _table_chunk(args):
    pats, ls = args
    conv, FileFilter, Config = _impl_funcs()
    subs = strings_upto(SUB_ALPHA, ls)
    cases = [[3, [s2n(p), s2n(SUB_ALPHA), ls]] for p in pats]
    model = model_run(cases)
    viol, disag = [], []
    nontriv = 0
    n_true = 0
    for p, m in zip(pats, model):
        try:
            ff = FileFilter(Config((conv(p),)))
            impl = [i for i, s in enumerate(subs) if ff.is_excluded(s)]
        except Exception as e:  # a pattern the real code cannot even compile
            viol.append({"pattern": p, "error": repr(e)})
            continue
        implset = set(impl)
        n_true += len(impl)
        if 0 < len(impl) < len(subs):
            nontriv += 1
        # property oracle, directly on the implementation, newline-free subjects only
        for i, s in enumerate(subs):
            if "\n" in s:
                continue
            if (i in implset) != glob_oracle(p, s):
                viol.append({"pattern": p, "path_string": s, "impl_excluded": i in implset, "documented": glob_oracle(p, s)})
                break
        if m != impl:
            diff = sorted(set(m or []) ^ implset)[:3]
            disag.append({"pattern": p, "subjects_differing": [subs[i] for i in diff], "model": [subs[i] in [subs[j] for j in (m or [])] for i in diff]})
    return len(pats) * len(subs), nontriv, n_true, viol, disag, list(zip(cases[:3], model[:3]))


def run(ctx: Ctx):
    conv, FileFilter, Config = _impl_funcs()
    lp_conv = 5 if ctx.quick else 6
    lp, ls = (3, 4) if ctx.quick else (4, 5)

    # 1. converter: every pattern up to lp_conv over the alphabet, plus random wide-charset ones
    pats = strings_upto(PAT_ALPHA, lp_conv)
    wide = "ab*.+/\\$^()[]{}|?-~#& \t\n\r\x0b\x0cé_0"
    for _ in range(3000 if ctx.quick else 30000):
        k = ctx.rng.randint(0, 10)
        pats.append("".join(ctx.rng.choice(wide) for _ in range(k)))
    cases = [[1, s2n(p)] for p in pats]
    model = model_run(cases)
    for p, c, m in zip(pats, cases, model):
        impl = conv(p)
        ctx.evaluations += 1
        if m is None or n2s(m) != impl:
            ctx.disagreement({"fn": "convert_partial_match_to_regex", "pattern": p, "impl": impl, "model": None if m is None else n2s(m)},
                             f"converter output differs for pattern {p!r}")
        if "*" in p.strip("*") or any(ch in p for ch in ".+\\$^()[]{}|?"):
            ctx.mark_nontrivial(("conv", p))
    ctx.selfcheck_pairs += list(zip(cases[:40], model[:40])) + list(zip(cases[-40:], model[-40:]))
    ctx.stat("converter_patterns", len(pats))
    ctx.sample({"convert": pats[777], "impl": conv(pats[777]), "model": n2s(model[777])})

    # 2. match tables: every pattern up to lp x every subject up to ls (subjects include newline)
    mpats = strings_upto(PAT_ALPHA, lp)
    chunks = [(mpats[i::NCPU * 4], ls) for i in range(NCPU * 4)]
    with Pool(NCPU) as pool:
        results = pool.map(_table_chunk, chunks)
    for n, nontriv, n_true, viol, disag, pairs in results:
        ctx.evaluations += n
        ctx.nontrivial_count += nontriv
        ctx.stat("matches_true", n_true)
        ctx.stat("pairs", n)
        for v in viol:
            ctx.violation(v, f"glob pattern {v.get('pattern')!r} on {v.get('path_string')!r}: real exclusion={v.get('impl_excluded')} documented={v.get('documented')}")
        for d in disag:
            ctx.disagreement(d, f"model matcher and re.match differ for pattern {d['pattern']!r}")
        ctx.selfcheck_pairs += pairs[:2]
    ctx.sample({"pattern": "*a.", "subject": "ba.", "excluded": FileFilter(Config((conv("*a."),))).is_excluded("ba.")})
    run_tree_part(ctx)
    ctx.exhaustive = True
    ctx.rule = (f"(a) converter: all {len(strings_upto(PAT_ALPHA, lp_conv))} patterns of length<={lp_conv} over {PAT_ALPHA!r} + random wide-charset patterns, output string compared; "
                f"match: all patterns length<={lp} x all subjects length<={ls} over {SUB_ALPHA!r} through the real FileFilter vs model matcher and vs the four-case oracle (newline-free subjects); "
                "non-trivial = pattern that excludes some but not all subjects / pattern containing a metacharacter or inner star; "
                "(b) random project trees (file names with regex metacharacters included) x exclusion tuples built from the tree's own paths in the glob shapes (full path, *name, */name, prefix*, *stem*, */dir/*) "
                "or their regex translations or hand-written regexes not terminated by $ or .* (oracle: re.match, i.e. anchored at the start only): filtered scan vs unfiltered scan minus everything at or below an excluded path (documented glob meaning decides what is excluded), imports between remaining modules "
                "unchanged (known finding K2 aside), and vs the model scan with the exclusion oracle taken from the real re on the real paths")
    ctx.notes.append("file names containing a newline are outside the theorem (hypothesis no_newline); the matcher model still covers them and is compared with re")


# --------------------------------------------------------------------------
# part (b): exclusions on real trees


def _tree_job(args):
    import os
    import random
    import re
    from harness import common, rules, scan
    conv, FileFilter, Config = _impl_funcs()
    seed, n = args
    rng = random.Random(seed)
    out = dict(n=0, nontrivial=0, stats={}, violations=[], disagreements=[], pairs=[], samples=[], known=[])
    for it in range(n):
        root, dirs, files = scan.gen_tree(rng, max_depth=4)
        scan.gen_imports(rng, dirs, files, externals=scan.EXTERNALS if it % 3 == 1 else (), nested=True)
        # a few file names with regex metacharacters that are legal in file names (never import targets)
        for d in list(dirs):
            if rng.random() < 0.25:
                nm = rng.choice(["a+b", "x(1)", "b$", "c[0]", "q^q"])
                if d + (nm,) not in files:
                    files[d + (nm,)] = {"py": True, "body": []}
        if rng.random() < 0.3:
            dirs = scan.add_links(rng, dirs, files)       # symbolic links: a pattern applies to the path of the link itself
            if dirs.links or any(v.get("link_to") for v in files.values()):
                out["stats"]["projects_with_symlinks"] = out["stats"].get("projects_with_symlinks", 0) + 1
        base = scan.materialise(dirs, files)
        try:
            mp = rng.choice([(root,), (root,)] + [d for d in dirs if len(d) == 2])
            # (exclusions=() with regex_exclusions=None is rejected by the library with a TypeError: an impossible pattern instead)
            # one third of the projects keep external libraries in the graph as well (both scans): the internal part must behave the same
            keep_ext = it % 3 == 1
            extkw = {"exclude_external_libraries": False} if keep_ext else {}
            if keep_ext:
                # ... and two thirds of those with an external exclusion option of either kind as well (a pattern no external
                # matches): how file patterns are read does not depend on which other options are given
                r_ext = rng.random()
                if r_ext < 0.35:
                    extkw["external_exclusions"] = ("zzzzNEVERzzzz*",)
                elif r_ext < 0.7:
                    extkw["regex_external_exclusions"] = ("zzzzNEVERzzzz.*",)
            unf = scan.real_scan(base, root, mp, exclusions=("zzzzNEVERzzzz",), **extkw)
            # an EMPTY exclusion tuple is an exclusion tuple too: it matches nothing, so the scan is the scan without patterns
            # (D29: exclusions=() alone ended in a TypeError); the spellings rotate over the projects
            empty_kw = [dict(exclusions=()), dict(exclusions=(), regex_exclusions=()), dict(exclusions=(), regex_exclusions=None)][it % 3]
            emp = scan.real_scan(base, root, mp, **empty_kw, **extkw)
            out["stats"]["empty_exclusion_tuples"] = out["stats"].get("empty_exclusion_tuples", 0) + 1
            if unf[0] == "OK" and emp[:3] != unf[:3] and not any("__pycache__" in d0 for d0 in map(scan.dotted, list(dirs) + list(files))):
                out["violations"].append((dict(dirs=[list(d) for d in dirs], files={scan.dotted(f): (scan.render_v(v) if v["py"] else None) for f, v in files.items()},
                                               module_path=list(mp), options={k: (list(v) if v is not None else None) for k, v in empty_kw.items()},
                                               got=list(emp[1:3]) if emp[0] == "OK" else emp[1], documented=list(unf[1:3])),
                                          f"empty exclusion tuple {empty_kw}: the scan is not the scan without patterns", {"kind": "empty_exclusions"}))
                continue
            if keep_ext and unf[0] == "OK":
                mpd = scan.dotted(mp)
                inner = lambda m: m == mpd or m.startswith(mpd + ".") or mpd.startswith(m + ".")     # at or below module_path, or one of its ancestors
                unf = (unf[0], [m for m in unf[1] if inner(m)], [(a, b) for a, b in unf[2] if inner(a) and inner(b)], unf[3])
            if unf[0] != "OK":
                out["violations"].append((dict(error=unf[1]), "unfiltered scan failed", {"kind": "scan_error"}))
                continue
            paths = {}
            for p in list(dirs) + list(files):
                is_file = p in files
                suffix = (".py" if files[p]["py"] else ".txt") if is_file else ""
                paths[p] = os.path.join(str(base), *p[:-1], p[-1] + suffix) if is_file else os.path.join(str(base), *p)
            # the SAME pattern strings once as `exclusions` (glob meaning: the whole path) and once as `regex_exclusions` (a regular
            # expression anchored at the start only), one scan after the other in this process, in either order: a path of the tree
            # that is also a valid regular expression, preferably one that is a proper prefix of a neighbour's path
            both = sorted(s0 for s0 in paths.values() if not any(ch in s0 for ch in "*?[]()+^$|\\{}"))
            both = [s0 for s0 in both if any(o != s0 and o.startswith(s0) and not o.startswith(s0 + "/") for o in both)] or both
            p_both = rng.choice(both) if both and rng.random() < 0.5 else None
            order_both = rng.choice([("glob", "regex"), ("regex", "glob")])
            for trial in range(6):
                forced = None
                if trial >= 4:
                    if p_both is None:
                        break
                    forced = order_both[trial - 4]
                tgt = rng.choice([p for p in paths if len(p) > len(mp) or rng.random() < 0.1] or list(paths))
                nm = os.path.basename(paths[tgt])
                stem = tgt[-1]
                shapes = [paths[tgt], "*" + nm, "*/" + nm, paths[tgt][:len(paths[tgt]) - len(nm)] + stem[:1] + "*", "*" + stem + "*", "*/" + stem + "/*", "*" + stem[:2] + "*"]
                globs = tuple(rng.sample(shapes, rng.randint(1, 2)))
                use_regex = rng.random() < 0.45
                rxs = tuple(conv(g) for g in globs)
                raw_regex = use_regex and rng.random() < 0.5
                if raw_regex:
                    # user-written regexes, not terminated by $ or .*: "applied as regular expressions anchored at the START of the path" (re.match)
                    esc = re.escape
                    raw_shapes = [esc(paths[tgt]), ".*/" + esc(stem), ".*" + esc(stem[:2]), esc(os.path.dirname(paths[tgt])) + "/" + esc(stem[:1]),
                                  ".*/" + esc(nm) + "$", "(?:.*/)?" + esc(stem) + r"(?:\.py)?$", ".*/" + esc(stem) + "/"]
                    rxs = tuple(rng.sample(raw_shapes, rng.randint(1, 2)))
                kw = dict(exclusions=(), regex_exclusions=rxs) if use_regex else dict(exclusions=globs)
                regex_only = use_regex and rng.random() < 0.3
                if regex_only:
                    # regex_exclusions given while `exclusions` is left at its default: the library may refuse the combination
                    # (the two options are documented as mutually exclusive) - but if it answers, the regexes must have been applied
                    kw = dict(regex_exclusions=rxs)
                if not forced and not use_regex and rng.random() < 0.08:
                    # a long tuple: 100-130 patterns that match nothing in front of the real ones (every pattern of the tuple counts)
                    globs = tuple("zzzzNEVER%03dzzzz*" % i0 for i0 in range(rng.choice([100, 101, 130]))) + globs
                    rxs = tuple(conv(g) for g in globs)
                    kw = dict(exclusions=globs)
                    out["stats"]["exclusion_tuples_with_more_than_100_patterns"] = out["stats"].get("exclusion_tuples_with_more_than_100_patterns", 0) + 1
                if forced == "glob":
                    globs, use_regex, raw_regex, regex_only = (p_both,), False, False, False
                    rxs = tuple(conv(g) for g in globs)
                    kw = dict(exclusions=globs)
                elif forced == "regex":
                    rxs, use_regex, raw_regex, regex_only = (p_both,), True, True, False
                    kw = dict(exclusions=(), regex_exclusions=rxs)
                if forced:
                    out["stats"]["same_strings_as_glob_and_as_regex"] = out["stats"].get("same_strings_as_glob_and_as_regex", 0) + 1
                flt = scan.real_scan(base, root, mp, **kw, **extkw)
                if regex_only and flt[0] == "ERR" and flt[1].startswith("ImproperlyConfigured"):
                    out["stats"]["regex_exclusions_with_default_exclusions_refused"] = out["stats"].get("regex_exclusions_with_default_exclusions_refused", 0) + 1
                    out["n"] += 1
                    continue
                if keep_ext and flt[0] == "OK":
                    flt = (flt[0], [m for m in flt[1] if inner(m)], [(a, b) for a, b in flt[2] if inner(a) and inner(b)], flt[3])
                out["n"] += 1
                case = dict(dirs=[list(d) for d in dirs], files={scan.dotted(f): (scan.render_v(v) if v["py"] else None) for f, v in files.items()},
                            module_path=list(mp), options={k: list(v) for k, v in kw.items()})
                if flt[0] != "OK":
                    out["violations"].append((dict(case, error=flt[1]), f"filtered scan failed: {flt[1]}", {"kind": "scan_error"}))
                    continue
                # which paths the documented glob meaning excludes
                if raw_regex:
                    excluded = {p for p, s in paths.items() if any(re.match(rx, s) for rx in rxs)}
                    out["stats"]["raw_regex_cases"] = out["stats"].get("raw_regex_cases", 0) + 1
                else:
                    excluded = {p for p, s in paths.items() if any(glob_oracle(g, s) for g in globs)}
                if any(mp[:i] in excluded and i == len(mp) for i in range(1, len(mp) + 1)):
                    out["stats"]["module_path_excluded"] = out["stats"].get("module_path_excluded", 0) + 1
                    continue          # outside the claim (DESIGN 3): the architecture is empty

                def gone(modname):
                    t = tuple(modname.split("."))
                    return any(t[:i] in excluded for i in range(len(mp), len(t) + 1))
                exp_mods = [m for m in unf[1] if not gone(m)]
                if flt[1] != exp_mods:
                    out["violations"].append((dict(case, modules=flt[1], documented=exp_mods, surplus=sorted(set(flt[1]) - set(exp_mods)), missing=sorted(set(exp_mods) - set(flt[1]))),
                                              f"exclusions {rxs if raw_regex else globs}: remaining modules are not exactly the non-excluded ones", {"kind": "excl_modules"}))
                    continue
                remaining = set(exp_mods)
                exp_edges = sorted((a, b) for a, b in unf[2] if a in remaining and b in remaining)
                surplus = sorted(set(flt[2]) - set(exp_edges))
                missing = sorted(set(exp_edges) - set(flt[2]))
                k2 = []
                for (u, P) in list(surplus):
                    # K2: 'from P import n' in u where P.n is excluded names P in the filtered scan only
                    body = scan.import_statements(files.get(tuple(u.split(".")), {}).get("body", []))
                    def explains(s):
                        if s[0] != "from":
                            return False
                        _, lvl, mod, names = s
                        if lvl == 0:
                            # the written name resolves to P either as it stands or prefixed with module_path's parent (sub-directory scans)
                            written = {mod, ".".join(mp[:-1] + (mod,))}
                            return P in written and any(gone(P + "." + nmx) for nmx in names)
                        pkg = tuple(u.split("."))[:-1]
                        b = ".".join(pkg[:len(pkg) - lvl + 1])
                        return mod is not None and b + "." + mod == P and any(gone(P + "." + nmx) for nmx in names)
                    if any(explains(s) for s in body):
                        k2.append((u, P))
                        surplus.remove((u, P))
                if (surplus or missing) and scan.has_ambiguous_imports(dirs, files, mp):
                    # an import name readable both as root-qualified and as relative to module_path's parent may change its reading
                    # when one of the two candidates is excluded: outside the claim (see DESIGN 11.4); model agreement is still checked below
                    out["stats"]["ambiguous_import_names"] = out["stats"].get("ambiguous_import_names", 0) + 1
                    surplus, missing, k2 = [], [], []
                if surplus or missing:
                    out["violations"].append((dict(case, edges_surplus=surplus, edges_missing=missing),
                                              f"exclusions {rxs if raw_regex else globs}: imports between remaining modules differ from the scan without the pattern", {"kind": "excl_edges"}))
                    continue
                for e in k2:
                    out["known"].append((dict(case, surplus_edge=list(e)), f"excluded sub module imported through 'from {e[1]} import n': edge {e[0]}->{e[1]} appears only in the filtered scan",
                                         {"kind": "from_import_of_excluded_submodule"}))
                if excluded and len(exp_mods) < len(unf[1]):
                    out["nontrivial"] += 1
                if keep_ext:
                    out["stats"]["externals_kept"] = out["stats"].get("externals_kept", 0) + 1
                    continue
                enc = rules.Enc()
                table = scan.excluded_table(str(base), dirs, files, rxs)
                wcase = scan.model_scan_case(enc, root, dirs, files, mp, excluded_paths=table)
                m = common.model_run([wcase])[0]
                d = scan.dec_scan(enc, m)
                if d is None or d[0] != "OK" or d[1] != flt[1] or d[2] != flt[2]:
                    out["disagreements"].append((dict(case, impl_modules=flt[1], impl_edges=flt[2], model=str(d)[:500]), "model scan and real scan differ under exclusions"))
                if not out["pairs"]:
                    out["pairs"].append((wcase, m))
            if not out["samples"]:
                out["samples"].append(dict(dirs=[scan.dotted(d) for d in dirs], files=[scan.dotted(f) for f in files]))
        finally:
            scan.cleanup(base)
    return common.tag_job(out, __name__, "_tree_job", list(args))


def run_tree_part(ctx: Ctx):
    from harness import rules
    n = 160 if ctx.quick else 4000
    per = 10
    jobs = [(ctx.rng.randrange(1 << 30), per) for _ in range(n // per)]
    with Pool(NCPU) as pool:
        rs = pool.map(_tree_job, jobs, chunksize=1)
    for r in rs:
        for case, what, tags in r.pop("known"):
            ctx.violation(case, what, tags)
        rules.merge_into(ctx, r)
    ctx.stat("tree_projects", n)


def replay(ctx: Ctx, path: str) -> int:
    conv, FileFilter, Config = _impl_funcs()
    r = json.load(open(path))
    c = r["case"]
    p, s = c.get("pattern"), c.get("path_string")
    if p is None or s is None:
        print("replay has no pattern/path_string")
        return 2
    got = FileFilter(Config((conv(p),))).is_excluded(s)
    print(f"pattern={p!r} path={s!r} real={got} documented={glob_oracle(p, s)}")
    if got != glob_oracle(p, s):
        print(f"VIOLATION property=C08 replay={path}")
        return 1
    return 0
