"""C08 — exclusions.  Part (a): glob pattern language, exhaustive over a small
alphabet; the real converter + real FileFilter (re.match) against the model's
converter + matcher, and against the four-case property oracle directly."""
from __future__ import annotations

import itertools
import json
from multiprocessing import Pool

from harness.common import Ctx, model_run, n2s, s2n, NCPU

PAT_ALPHA = "ab*.+/"
SUB_ALPHA = "ab*.+/\n"


def strings_upto(alpha: str, n: int) -> list[str]:
    out = []
    for k in range(n + 1):
        out.extend("".join(t) for t in itertools.product(alpha, repeat=k))
    return out


def glob_oracle(p: str, s: str) -> bool:
    """The property's own words: literal text in full, leading * any prefix, trailing * any suffix."""
    st, en = p.startswith("*"), p.endswith("*")
    text = p[(1 if st else 0):(len(p) - 1 if en else len(p))]
    if st and en:
        return text in s
    if st:
        return s.endswith(text)
    if en:
        return s.startswith(text)
    return s == text


def _impl_funcs():
    from pytestarch.eval_structure_generation.file_import.config import Config
    from pytestarch.eval_structure_generation.file_import.file_filter import FileFilter
    from pytestarch.utils.partial_match_to_regex_converter import convert_partial_match_to_regex
    return convert_partial_match_to_regex, FileFilter, Config


def _table_chunk(args):
    pats, ls = args
    conv, FileFilter, Config = _impl_funcs()
    subs = strings_upto(SUB_ALPHA, ls)
    cases = [[3, [s2n(p), s2n(SUB_ALPHA), ls]] for p in pats]
    model = model_run(cases)
    viol, disag = [], []
    nontriv = 0
    n_true = 0
    for p, m in zip(pats, model):
        try:
            ff = FileFilter(Config((conv(p),)))
            impl = [i for i, s in enumerate(subs) if ff.is_excluded(s)]
        except Exception as e:  # a pattern the real code cannot even compile
            viol.append({"pattern": p, "error": repr(e)})
            continue
        implset = set(impl)
        n_true += len(impl)
        if 0 < len(impl) < len(subs):
            nontriv += 1
        # property oracle, directly on the implementation, newline-free subjects only
        for i, s in enumerate(subs):
            if "\n" in s:
                continue
            if (i in implset) != glob_oracle(p, s):
                viol.append({"pattern": p, "path_string": s, "impl_excluded": i in implset, "documented": glob_oracle(p, s)})
                break
        if m != impl:
            diff = sorted(set(m or []) ^ implset)[:3]
            disag.append({"pattern": p, "subjects_differing": [subs[i] for i in diff], "model": [subs[i] in [subs[j] for j in (m or [])] for i in diff]})
    return len(pats) * len(subs), nontriv, n_true, viol, disag, list(zip(cases[:3], model[:3]))


def run(ctx: Ctx):
    conv, FileFilter, Config = _impl_funcs()
    lp_conv = 5 if ctx.quick else 6
    lp, ls = (3, 4) if ctx.quick else (4, 5)

    # 1. converter: every pattern up to lp_conv over the alphabet, plus random wide-charset ones
    pats = strings_upto(PAT_ALPHA, lp_conv)
    wide = "ab*.+/\\$^()[]{}|?-~#& \t\n\r\x0b\x0cé_0"
    for _ in range(3000 if ctx.quick else 30000):
        k = ctx.rng.randint(0, 10)
        pats.append("".join(ctx.rng.choice(wide) for _ in range(k)))
    cases = [[1, s2n(p)] for p in pats]
    model = model_run(cases)
    for p, c, m in zip(pats, cases, model):
        impl = conv(p)
        ctx.evaluations += 1
        if m is None or n2s(m) != impl:
            ctx.disagreement({"fn": "convert_partial_match_to_regex", "pattern": p, "impl": impl, "model": None if m is None else n2s(m)},
                             f"converter output differs for pattern {p!r}")
        if "*" in p.strip("*") or any(ch in p for ch in ".+\\$^()[]{}|?"):
            ctx.mark_nontrivial(("conv", p))
    ctx.selfcheck_pairs += list(zip(cases[:40], model[:40])) + list(zip(cases[-40:], model[-40:]))
    ctx.stat("converter_patterns", len(pats))
    ctx.sample({"convert": pats[777], "impl": conv(pats[777]), "model": n2s(model[777])})

    # 2. match tables: every pattern up to lp x every subject up to ls (subjects include newline)
    mpats = strings_upto(PAT_ALPHA, lp)
    chunks = [(mpats[i::NCPU * 4], ls) for i in range(NCPU * 4)]
    with Pool(NCPU) as pool:
        results = pool.map(_table_chunk, chunks)
    for n, nontriv, n_true, viol, disag, pairs in results:
        ctx.evaluations += n
        ctx.nontrivial_count += nontriv
        ctx.stat("matches_true", n_true)
        ctx.stat("pairs", n)
        for v in viol:
            ctx.violation(v, f"glob pattern {v.get('pattern')!r} on {v.get('path_string')!r}: real exclusion={v.get('impl_excluded')} documented={v.get('documented')}")
        for d in disag:
            ctx.disagreement(d, f"model matcher and re.match differ for pattern {d['pattern']!r}")
        ctx.selfcheck_pairs += pairs[:2]
    ctx.sample({"pattern": "*a.", "subject": "ba.", "excluded": FileFilter(Config((conv("*a."),))).is_excluded("ba.")})
    ctx.exhaustive = True
    ctx.rule = (f"(a) converter: all {len(strings_upto(PAT_ALPHA, lp_conv))} patterns of length<={lp_conv} over {PAT_ALPHA!r} + random wide-charset patterns, output string compared; "
                f"match: all patterns length<={lp} x all subjects length<={ls} over {SUB_ALPHA!r} through the real FileFilter vs model matcher and vs the four-case oracle (newline-free subjects); "
                "non-trivial = pattern that excludes some but not all subjects / pattern containing a metacharacter or inner star")
    ctx.notes.append("file names containing a newline are outside the theorem (hypothesis no_newline); the matcher model still covers them and is compared with re")


def replay(ctx: Ctx, path: str) -> int:
    conv, FileFilter, Config = _impl_funcs()
    r = json.load(open(path))
    c = r["case"]
    p, s = c.get("pattern"), c.get("path_string")
    if p is None or s is None:
        print("replay has no pattern/path_string")
        return 2
    got = FileFilter(Config((conv(p),))).is_excluded(s)
    print(f"pattern={p!r} path={s!r} real={got} documented={glob_oracle(p, s)}")
    if got != glob_oracle(p, s):
        print(f"VIOLATION property=C08 replay={path}")
        return 1
    return 0
