"""C14 — identity follows dotted-name boundaries.  Every case is materialised twice on the
real code, once with collision-free and once with adversarial component names (one sibling
a string prefix / substring of another); the two real outcomes must coincide modulo the
renaming.  No model in the loop for the violation; the model is compared as well."""
from __future__ import annotations

import json
import random
from multiprocessing import Pool

from harness import layers, rules
from harness.common import Ctx, NCPU
from harness.props import c05

FREE = ["m0", "m1", "m2", "m3", "m4", "m5", "m6", "m7", "m8"]
ADV = ["a", "ab", "a_b", "aa", "b", "ba", "a1", "_a", "A"]
ADV2 = ["x", "xx", "xxx", "x_", "x_x", "X", "x1", "x11", "_x"]
# non-ASCII identifiers: first characters below and above U+00FF, normalisation-unstable ones, next to ASCII
ADVU = ["\u044f", "\u03b4x", "\u30c7\u30fc\u30bf", "\u00ffz", "\u00e9", "ab", "\u00df", "\u00b5", "\u0100a"]


# names with characters that sort before the dot: "c" < "c-x" < "c.y" (legal directory names; the graphs here are built directly)
ADVS = ["c", "c-x", "c+x", "c x", "c$", "c#1", "cx", "d", "d-"]


def abstract_tree(rng, max_nodes):
    """tree over abstract component ids 0..8; node = tuple of ids; root = ('R',)"""
    nodes = [()]
    for _ in range(rng.randint(2, max_nodes)):
        p = rng.choice(nodes)
        if len(p) >= 3:
            p = ()
        nodes.append(p + (rng.randrange(9),))
    return sorted(set(nodes))


def render(node, names, root="r"):
    return ".".join([root] + [names[i] for i in node])


def unrender_lines(lines, back):
    def nm(s):
        return back.get(s, s)
    out = set()
    for l in lines:
        if l[0] == "C" and len(l) == 3:
            out.add(("C", nm(l[1]), nm(l[2])))
        elif l[0] == "C":
            out.add(("C", nm(l[1]), l[2], nm(l[3]), l[4]))
        elif isinstance(l[1], tuple):
            out.add((l[0], (l[1][0], nm(l[1][1])), frozenset((k, nm(n)) for k, n in l[2])))
        else:
            out.add(l)
    return frozenset(out)


def _job(args):
    seed, n = args
    rng = random.Random(seed)
    out = dict(n=0, nontrivial=0, stats={}, violations=[], disagreements=[], pairs=[], samples=[])
    for it in range(n):
        anodes = abstract_tree(rng, rng.choice([5, 8, 12]))
        E = set()
        for _ in range(rng.randint(0, 8)):
            a, b = rng.choice(anodes), rng.choice(anodes)
            if a != b:
                E.add((a, b))
        aedges = sorted(E)
        perm = list(range(9))
        rng.shuffle(perm)
        namings = [FREE, [ADV[perm[i]] for i in range(9)], [ADV2[perm[(i + 3) % 9]] for i in range(9)], [ADVU[perm[(i + 6) % 9]] for i in range(9)],
                   [ADVS[perm[(i + 1) % 9]] for i in range(9)]]
        kind = "layer" if it % 3 == 2 else "rule"
        per_naming = []
        if kind == "rule":
            cand = [x for x in anodes if x != ()]
            if len(cand) < 2:
                continue
            k1, k2 = rng.randint(1, 2), rng.randint(1, 2)
            pick = rng.sample(cand, min(len(cand), k1 + k2))
            k = min(k1, len(pick) - 1)
            sk, ok = rng.choice(["named", "sub"]), rng.choice(["named", "sub"])
            S, O = pick[:k], pick[k:]
            nested = [(a, b) for a in cand for b in cand if len(b) > len(a) and b[:len(a)] == a]
            if nested and rng.random() < 0.3:
                a, b = rng.choice(nested)                 # a package listed together with one of its own sub modules
                S = list(dict.fromkeys([b, a] + S))
                # ... and with a sibling of the package; under the fifth naming the sibling's name sorts BETWEEN the package and its sub modules
                sib = [x for x in cand if x[:-1] == a[:-1] and x[-1] != a[-1] and x[-1] != b[len(a)] if len(b) > len(a)]
                if sib and rng.random() < 0.7:
                    sb = rng.choice(sib)
                    S = list(dict.fromkeys(S + [sb]))
                    forced = {a[-1]: "c", sb[-1]: rng.choice(["c-x", "c+x", "c x", "c$", "c#1"])}
                    rest_names = [n for n in ADVS if n not in forced.values()]
                    rest_ids = [i for i in range(9) if i not in forced]
                    namings[4] = [forced[i] if i in forced else rest_names[rest_ids.index(i)] for i in range(9)]
                O = [x for x in O if x not in S] or O
                sk = "named"
            warm = rng.random() < 0.4 and len(S[0]) >= 1
            for names in namings:
                nodes = [render(x, names) for x in anodes]
                edges = [(render(a, names), render(b, names)) for a, b in aedges]
                back = {render(x, names): x for x in anodes}
                specs = rules.all_shapes((sk, [render(x, names) for x in S]), (ok, [render(x, names) for x in O]))
                if warm:
                    # the same architecture object is first asked about the PARENT of the first subject (same objects)
                    specs = rules.all_shapes(("named", [render(S[0][:-1], names)]), (ok, [render(x, names) for x in O]), with_aliases=False)[:6] + specs
                rec, w, m = rules.eval_cases([dict(nodes=nodes, edges=edges, specs=specs)])[0]
                outs = []
                for spec, (io, mo) in zip(specs, rec):
                    out["n"] += 1
                    if not rules.same_verdict(io, mo) or not rules.same_lines(io, mo):
                        out["disagreements"].append((dict(nodes=nodes, edges=edges, spec=rules._jsonable_spec(spec), impl=[io[0], io[1][:200]], model=mo[0]),
                                                     f"model and implementation differ: {rules.spec_key(spec)}"))
                    lines = unrender_lines(rules.parse_message(io[1]) or (), back) if io[0] == "FAIL" else frozenset()
                    outs.append((io[0], lines))
                per_naming.append((names, nodes, edges, outs, specs))
                if not out["pairs"]:
                    out["pairs"].append(([10, [w[1][0], w[1][1], w[1][2][:14]]], m[:14]))
        else:
            rng2 = random.Random(rng.randrange(1 << 30))
            cand = [x for x in anodes if x != ()]
            rng2.shuffle(cand)
            chosen = []
            for x in cand:
                if not any(x[:len(y)] == y or y[:len(x)] == x for y in chosen):
                    chosen.append(x)
            if len(chosen) < 2:
                continue
            nl = rng2.randint(2, min(3, len(chosen)))
            lnames = ["A", "B", "C"][:nl]
            parts = {L: [] for L in lnames}
            for i, x in enumerate(chosen[:rng2.randint(nl, len(chosen))]):
                parts[lnames[i] if i < nl else rng2.choice(lnames)].append(x)
            subj = rng2.choice(lnames)
            objs = rng2.sample([L for L in lnames if L != subj], rng2.randint(1, nl - 1))
            # now and then a layer lists a package AND, redundantly, one of that package's own sub packages: the sub package's
            # siblings still belong to the layer through the package - wherever the names sort
            redundant = False
            if rng2.random() < 0.7:
                opts = [(L, x, y) for L in lnames for x in parts[L] for y in cand if len(y) > len(x) and y[:len(x)] == x
                        and any(len(z) > len(x) and z[:len(x)] == x and z[:len(y)] != y for z in cand)]
                if opts:
                    L0, _x0, y0 = rng2.choice(opts)
                    parts[L0].append(y0)
                    redundant = True
                    out["stats"]["layer_listing_a_package_and_one_of_its_sub_packages"] = out["stats"].get("layer_listing_a_package_and_one_of_its_sub_packages", 0) + 1
            for names in namings:
                nodes = [render(x, names) for x in anodes]
                edges = [(render(a, names), render(b, names)) for a, b in aedges]
                back = {render(x, names): x for x in anodes}
                arch_calls = [(L, "list", [render(x, names) for x in parts[L]]) for L in lnames]
                cc = dict(arch_calls=arch_calls, subj=subj, objs=objs, obj_as_str=False)
                hs, metas = c05.histories(cc)
                res, pair = layers.eval_layer_histories(nodes, edges, hs)
                outs = []
                for meta, (io, mo) in zip(metas, res):
                    out["n"] += 1
                    if not layers.same_layer_outcome(io, mo):
                        out["disagreements"].append((dict(nodes=nodes, edges=edges, layers=[[a, b, v] for a, b, v in arch_calls], rule=meta, impl=[io[0], io[1][:200]], model=mo[0]),
                                                     f"model and implementation differ on layer rule {meta}"))
                    lines = unrender_lines(layers.parse_layer_message(io[1]) or (), back) if io[0] == "FAIL" else frozenset()
                    outs.append((io[0], lines))
                per_naming.append((names, nodes, edges, outs, metas))
        base = per_naming[0]
        verdicts = {o[0] for o in base[3]}
        for other in per_naming[1:]:
            for i, (o0, o1) in enumerate(zip(base[3], other[3])):
                if o0 != o1:
                    what = "verdict" if o0[0] != o1[0] else "violation message / layer attribution"
                    case = dict(kind=kind, abstract_nodes=[list(x) for x in anodes], abstract_edges=[[list(a), list(b)] for a, b in aedges],
                                naming_a=base[0], naming_b=other[0], nodes_a=base[1], nodes_b=other[1], edges_b=other[2],
                                rule=(rules._jsonable_spec(other[4][i]) if kind == "rule" else other[4][i]),
                                outcome_a=[o0[0], sorted(map(str, o0[1]))], outcome_b=[o1[0], sorted(map(str, o1[1]))])
                    out["violations"].append((case, f"{what} changes under an injective renaming of path components ({kind} rule #{i}): {o0[0]} vs {o1[0]}", {"kind": kind}))
        if len(verdicts) > 1:
            out["nontrivial"] += 1
        out["stats"][kind] = out["stats"].get(kind, 0) + 1
        if not out["samples"]:
            out["samples"].append(dict(kind=kind, nodes_free=per_naming[0][1], nodes_adversarial=per_naming[1][1]))
    return out


def scan_rename_stream(ctx: Ctx, n: int):
    """'... or is internal like another' : a project scanned under two injective namings of its directories and files
    (collision-free vs. sibling names that are string prefixes of each other), with module_path below root_path and with
    external libraries kept as well: modules and imports must be the same up to the renaming."""
    from harness import scan
    for it in range(n):
        rng = ctx.rng
        anodes = [x for x in abstract_tree(rng, rng.choice([6, 9, 12])) if x != ()]
        if not anodes:
            continue
        leaves = [x for x in anodes if not any(len(y) > len(x) and y[:len(x)] == x for y in anodes)]
        inner = [x for x in anodes if x not in leaves]
        imports = {}
        for f in leaves:
            imports[f] = [rng.choice(leaves) for _ in range(rng.randint(0, 3))]
        # now and then some of the leaves are directories WITHOUT any python file below them (docs, assets, an empty package): still
        # directories, still modules - whatever their siblings are called
        empties = [f for f in leaves if rng.random() < 0.3] if rng.random() < 0.4 else []
        if len(empties) == len(leaves):
            empties = empties[1:]
        if empties:
            ctx.stat("scan_rename_cases_with_python_less_directories")
        top = [x for x in inner if len(x) == 1]
        mp_abs = rng.choice(top) if top and rng.random() < 0.7 else ()
        kw = rng.choice([{}, {"exclude_external_libraries": False}, {"exclude_external_libraries": False}])
        perm = list(range(9))
        rng.shuffle(perm)
        results = []
        # which imports are written relative to module_path's parent directory (without the root package's name) instead of fully
        # qualified: decided once per abstract case, the same for every naming
        short_form = {(f, j): (rng.random() < 0.5) for f in leaves for j in range(4)}
        root_id = rng.randrange(9)
        # a fourth naming in which the root directory's name is a string prefix of EVERY component name
        PFX = ["pa", "p_", "pp", "p1", "pb", "pab", "p_p", "px", "p0"]
        for names in (FREE, [ADV[perm[i]] for i in range(9)], [ADV2[perm[(i + 4) % 9]] for i in range(9)], [PFX[perm[(i + 2) % 9]] for i in range(9)]):
            # the root directory is named like one of the components (FREE: m0..m8; adversarial: a name that is a prefix of others)
            # (the same choice under every naming: the renaming must stay injective on root + components)
            root = names[root_id] if it % 2 else ("p" if names[0].startswith("p") and names[1].startswith("p") else "proj")
            nm = lambda x: tuple([root] + [names[i] for i in x])
            dirs = [(root,)] + [nm(x) for x in inner] + [nm(x) for x in empties]

            def spell(f, j, t):
                full = nm(t)
                if mp_abs and f[:len(mp_abs)] == mp_abs and short_form[(f, j)]:
                    return ".".join(full[1:])          # relative to module_path's parent (= the root directory, module_path being one level below)
                return ".".join(full)
            files = {nm(f): {"py": True, "body": [("import", [spell(f, j, t)]) for j, t in enumerate(imports[f]) if t != f]} for f in leaves if f not in empties}
            base = scan.materialise(dirs, files)
            try:
                r = scan.real_scan(base, root, nm(mp_abs), **kw)
            finally:
                scan.cleanup(base)
            ctx.evaluations += 1
            if r[0] != "OK":
                results.append(("ERR", r[1][:100]))
                continue
            back = {".".join(nm(x)): x for x in anodes}
            back[root] = ()
            for x in anodes:
                # a name written without the root package that is NOT resolved into the scanned sub tree stays an external name
                # (and brings its ancestors along): the same abstract thing under every naming
                for i in range(1, len(x) + 1):
                    back.setdefault(".".join(nm(x[:i])[1:]), ("unqualified", x[:i]))
            mods = frozenset(back.get(m, ("?", m)) for m in r[1])
            eds = frozenset((back.get(a, ("?", a)), back.get(b, ("?", b))) for a, b in r[2])
            results.append(("OK", mods, eds))
        for r in results[1:]:
            if r != results[0]:
                ctx.violation(dict(abstract_nodes=[list(x) for x in anodes], imports={str(list(k)): [list(t) for t in v] for k, v in imports.items()}, module_path=list(mp_abs),
                                   options=kw, free=str(results[0])[:400], adversarial=str(r)[:400]),
                              "modules / imports of a scan change under an injective renaming of directories and files", {"kind": "scan_rename"})
                break
        ctx.mark_nontrivial(("scanren", it))
    ctx.stat("scan_rename_cases", n)


def diagram_rename_stream(ctx: Ctx, n: int):
    """DiagramRule under injective renamings: one abstract diagram (components = pairwise unrelated modules, drawn arrows) and
    import relation, materialised under the four namings; verdict and report (names mapped back) must coincide, both modes."""
    from pytestarch import DiagramRule
    from harness import common
    d = common.scratch_dir()
    try:
        for it in range(n):
            rng = ctx.rng
            anodes = abstract_tree(rng, rng.choice([6, 9, 12]))
            cand = [x for x in anodes if x != ()]
            rng.shuffle(cand)
            comps = []
            for x in cand:
                if not any(x[:len(y)] == y or y[:len(x)] == x for y in comps):
                    comps.append(x)
            comps = comps[:rng.randint(2, 5)]
            if len(comps) < 2:
                continue
            rel = set()
            for _ in range(rng.randint(1, 5)):
                a, b = rng.choice(comps), rng.choice(comps)
                if a != b:
                    rel.add((a, b))
            below = lambda c: [x for x in anodes if x[:len(c)] == c]
            E = {(rng.choice(below(a)), rng.choice(below(b))) for a, b in rel}
            r = rng.random()
            if r < 0.3 and E:
                E.discard(rng.choice(sorted(E)))
            elif r < 0.7:
                a, b = rng.choice(comps), rng.choice(comps)      # an import between two components, drawn or not
                if a != b:
                    E.add((rng.choice(below(a)), rng.choice(below(b))))
            perm = list(range(9))
            rng.shuffle(perm)
            # often: two sibling components whose adversarial names are string prefixes of each other ('a' / 'ab', 'x' / 'xx'), with an
            # import between them that the diagram does not draw (and, in should-only mode, no other arrow that could catch it)
            sibs = [(a, b) for a in comps for b in comps if a != b and a[:-1] == b[:-1] and a[-1] != b[-1] and (a, b) not in rel]
            if sibs and rng.random() < 0.5:
                a, b = rng.choice(sibs)
                E.add((rng.choice(below(a)), rng.choice(below(b))))
                # ids a[-1] -> first adversarial name, b[-1] -> a name extending it
                rest = [i for i in perm if i not in (a[-1], b[-1])]
                order = {a[-1]: 0, b[-1]: 1}
                for k, i in enumerate(rest):
                    order[i] = k + 2
                perm_adv = [order[i] for i in range(9)]
                ADV_P = ["a", "ab", "a_b", "aa", "b", "ba", "a1", "_a", "A"]
                ADV2_P = ["x", "xx", "xxx", "x_", "x_x", "X", "x1", "x11", "_x"]
                namings = [FREE, [ADV_P[perm_adv[i]] for i in range(9)], [ADV2_P[perm_adv[i]] for i in range(9)], [ADVU[perm[(i + 6) % 9]] for i in range(9)]]
                ctx.stat("diagram_forced_prefix_siblings")
            else:
                namings = [FREE, [ADV[perm[i]] for i in range(9)], [ADV2[perm[(i + 3) % 9]] for i in range(9)], [ADVU[perm[(i + 6) % 9]] for i in range(9)]]
            aedges = sorted(e for e in E if e[0] != e[1])
            per = []
            for k, names in enumerate(namings):
                nodes = [render(x, names) for x in anodes]
                edges = [(render(a, names), render(b, names)) for a, b in aedges]
                back = {render(x, names): x for x in anodes}
                lines = [f"[{render(c, names)}]" for c in comps] + [f"[{render(a, names)}] --> [{render(b, names)}]" for a, b in sorted(rel)]
                p = d / f"d{it}_{k}.puml"
                p.write_text("@startuml\n" + "\n".join(lines) + "\n@enduml\n", encoding="utf-8")
                arch = rules.make_arch_direct(nodes, edges)
                outs = []
                enc = rules.Enc()
                gsx = enc.graph_built(nodes, edges)
                comps_sx = [enc.name(render(c, names)) for c in comps]
                rel_sx = [[enc.name(render(a, names)), enc.name(render(b, names))] for a, b in sorted(rel)]
                mres = common.model_run([[22, [gsx, True, [], comps_sx, rel_sx]], [22, [gsx, False, [], comps_sx, rel_sx]]])
                for only, m in zip((True, False), mres):
                    io = rules.run_rule(DiagramRule(should_only_rule=only).from_file(p).base_module_included_in_module_names(), arch)
                    ctx.evaluations += 1
                    mo = enc.dec_outcome(m)
                    if not rules.same_verdict(io, mo) or not rules.same_lines(io, mo):
                        ctx.disagreement(dict(diagram=p.read_text(encoding="utf-8"), nodes=nodes, edges=edges, should_only_rule=only, impl=[io[0], io[1][:200]], model=mo[0]),
                                         "model and implementation differ on a diagram rule")
                    outs.append((io[0], unrender_lines(rules.parse_message(io[1]) or (), back) if io[0] == "FAIL" else frozenset()))
                per.append((names, nodes, edges, outs, p.read_text(encoding="utf-8")))
            for other in per[1:]:
                for i, (o0, o1) in enumerate(zip(per[0][3], other[3])):
                    if o0 != o1:
                        ctx.violation(dict(kind="diagram", naming_a=per[0][0], naming_b=other[0], diagram_a=per[0][4], diagram_b=other[4], nodes_a=per[0][1], edges_a=per[0][2], nodes_b=other[1], edges_b=other[2],
                                           should_only_rule=(i == 0), outcome_a=[o0[0], sorted(map(str, o0[1]))], outcome_b=[o1[0], sorted(map(str, o1[1]))]),
                                      f"DiagramRule (should_only_rule={i == 0}) changes under an injective renaming of path components: {o0[0]} vs {o1[0]}", {"kind": "diagram"})
                        break
            if len({o[0] for o in per[0][3]}) > 1 or per[0][3][0][0] == "FAIL":
                ctx.mark_nontrivial(("diagram", it))
            ctx.stat("diagram")
    finally:
        import shutil
        shutil.rmtree(d, ignore_errors=True)


def run(ctx: Ctx):
    diagram_rename_stream(ctx, 150 if ctx.quick else 4000)
    scan_rename_stream(ctx, 60 if ctx.quick else 1500)
    n = 900 if ctx.quick else 24000
    per = 30
    jobs = [(ctx.rng.randrange(1 << 30), per) for _ in range(n // per)]
    with Pool(NCPU) as pool:
        rs = pool.map(_job, jobs, chunksize=1)
    for r in rs:
        rules.merge_into(ctx, r)
    from harness.props import c17
    c17.rename_stream(ctx, 150 if ctx.quick else 3000)
    ctx.stat("abstract_cases", n)
    ctx.rule = (f"{n} abstract cases (tree over component ids, import relation, and either a module rule pick (1-2 subjects x 1-2 objects, both filter kinds, related allowed; 14 shapes) "
                "or a layered architecture with a layer rule (14 shapes)) each materialised under four injective namings: collision-free, a non-ASCII pool (first characters below and above U+00FF), and two adversarial pools in which siblings are string "
                "prefixes/substrings of each other; real outcomes (verdict, parsed message lines, layer tags) compared after mapping names back to ids; plot labels likewise (see C17); projects scanned under three namings with module_path below root_path and externals kept (modules / imports equal up to the renaming); "
                "DiagramRules (both modes) for one abstract diagram and import relation under the four namings; every evaluation also compared with the model; non-trivial = case whose shapes give different verdicts")


def replay(ctx: Ctx, path: str) -> int:
    r = json.load(open(path))
    c = r["case"]
    if c.get("kind") != "rule":
        print("automatic replay implemented for module rules only; case:", json.dumps(c)[:400])
        return 2
    spec = dict(c["rule"])
    for k in ("subj", "obj"):
        if spec.get(k) is not None:
            spec[k] = (spec[k][0], spec[k][1])
    rec, _, _ = rules.eval_cases([dict(nodes=c["nodes_b"], edges=[tuple(e) for e in c["edges_b"]], specs=[spec])])[0]
    io = rec[0][0]
    print("adversarial naming:", io[0], io[1][:300], "| collision-free naming gave:", c["outcome_a"])
    if io[0] != c["outcome_a"][0]:
        print(f"VIOLATION property=C14 replay={path}")
        return 1
    return 0
