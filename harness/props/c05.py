"""C05 — layer-rule verdicts follow the documented semantics, one unit per layer."""
from __future__ import annotations

import itertools
import json
import random
import re
from multiprocessing import Pool

from harness import layers, rules
from harness.common import Ctx, NCPU

VERB_CALL = {"should": "should", "should_only": "should_only", "should_not": "should_not"}


def layer_oracle(nodes, edges, arch_def, subj, objs, verb, imp, exc, anything=False):
    """Documented semantics -> True (pass) / False (fail).  arch_def: {layer: [listed modules]}."""
    E = {(a, b) for (a, b) in edges if not (b.startswith(a + ".") and b.count(".") == a.count(".") + 1)}
    if not imp:
        E = {(b, a) for (a, b) in E}

    def members(L):
        return {m for m in nodes if any(rules.anc(x, m) for x in arch_def[L])}
    mS = members(subj)
    if anything:
        objs, verb, exc = [], "should_not", True
    mO = {M: members(M) for M in objs}
    allO = set().union(*mO.values()) if mO else set()

    def access(M):
        return any(s in mS and t in mO[M] for (s, t) in E)
    other = any(s in mS and t not in mS and t not in allO for (s, t) in E)
    if not exc:
        if verb == "should":
            return all(access(M) for M in objs)
        if verb == "should_not":
            return not any(access(M) for M in objs)
        return all(access(M) for M in objs) and not other
    if verb == "should":
        return other
    if verb == "should_not":
        return not other
    return other and not any(access(M) for M in objs)


def gen_case(rng, forest=False, tricky=False):
    large = rng.random() < 0.15 and not tricky       # beyond hand-written sizes: up to 40 modules, 6 levels, 6 layers, 4 object layers
    pool = rules.LARGE_POOL if large else rules.SORT_TRICKY if tricky else rng.choice((rules.COLLISION_FREE, rules.ADVERSARIAL))
    nodes = rules.rand_tree(rng, pool, max_nodes=rng.choice([25, 40]), max_depth=6) if large else rules.rand_tree(rng, pool, max_nodes=rng.choice([6, 9, 13]))
    if forest:
        # a second top-level tree (as an external library kept in the graph): its root is a listed module without any dot
        nodes = sorted(set(nodes) | set(rules.rand_tree(rng, pool, max_nodes=4, root=rng.choice(["ext", "e", "rx"]))))
    edges = rules.rand_edges(rng, nodes, k_max=10)
    cand = [n for n in nodes if n != "r"]
    rng.shuffle(cand)
    chosen = []
    for n in cand:
        if not any(rules.related(n, m) for m in chosen):
            chosen.append(n)
    n_layers = rng.randint(4, 6) if large else rng.randint(2, 4)
    if len(chosen) < n_layers:
        return None
    keep = chosen[:rng.randint(n_layers, len(chosen))]
    if rng.random() < 0.5 and len(keep) > n_layers:
        keep = keep[:-1]          # leave some unrelated module in no layer
    names = ["A", "B", "C", "D", "E", "F"][:n_layers]
    parts = {L: [] for L in names}
    for i, m in enumerate(keep):
        parts[names[i] if i < n_layers else rng.choice(names)].append(m)
    arch_def, arch_calls = {}, []
    for L in names:
        mods = parts[L]
        kind = rng.choice(["list", "list", "regex", "str"]) if len(mods) == 1 else rng.choice(["list", "list", "regex"])
        if kind == "regex":
            val = "|".join(re.escape(m) + "$" for m in mods)
        elif kind == "str":
            val = mods[0]
        else:
            val = list(mods)
        arch_def[L] = mods
        arch_calls.append((L, kind, val))
    subj = rng.choice(names)
    others = [L for L in names if L != subj]
    k = rng.randint(1, min(4 if large else 2, len(others)))
    objs = rng.sample(others, k)
    return dict(nodes=nodes, edges=edges, arch_def=arch_def, arch_calls=arch_calls, subj=subj, objs=objs)


ACCESS = {(True, False): "access_layers_that", (False, False): "be_accessed_by_layers_that",
          (True, True): "access_layers_except_layers_that", (False, True): "be_accessed_by_layers_except_layers_that"}


def histories(c):
    hs, metas = [], []
    base = [("based_on", c["arch_calls"]), ("layers_that",), ("named", c["subj"])]
    for v in rules.VERBS:
        for imp in (True, False):
            for exc in (False, True):
                objcall = ("named", c["objs"][0]) if len(c["objs"]) == 1 and c.get("obj_as_str") else ("named_list", list(c["objs"]))
                hs.append(base + [(v,), (ACCESS[(imp, exc)],), objcall])
                metas.append(dict(verb=v, imp=imp, exc=exc, anything=False))
    for imp in (True, False):
        hs.append(base + [("should_not",), ("access_any_layer" if imp else "be_accessed_by_any_layer",)])
        metas.append(dict(verb="should_not", imp=imp, exc=True, anything=True))
    return hs, metas


def _job(args):
    seed, n, mode = args
    rng = random.Random(seed)
    out = dict(n=0, nontrivial=0, stats={}, violations=[], disagreements=[], pairs=[], samples=[])
    done = 0
    while done < n:
        c = gen_case(rng, forest=(mode == "direct" and rng.random() < 0.35), tricky=(mode == "direct" and rng.random() < 0.2))
        if c is None:
            continue
        c["obj_as_str"] = rng.random() < 0.5
        if mode == "scan":
            inner = {x for x in c["nodes"] if any(m.startswith(x + ".") for m in c["nodes"])}
            c["edges"] = [(a, b) for (a, b) in c["edges"] if a not in inner]
        done += 1
        hs, metas = histories(c)
        if mode == "direct" and rng.random() < 0.1:
            # the same layer rules on a LEVEL-LIMITED architecture: a deeper graph whose limited view is this one
            n2, e2, lim = rules.refine_for_limit(rng, c["nodes"], c["edges"])
            res, pair = layers.eval_layer_histories(n2, e2, hs, mode, limit=lim)
            out["stats"]["level_limited"] = out["stats"].get("level_limited", 0) + 1
        else:
            res, pair = layers.eval_layer_histories(c["nodes"], c["edges"], hs, mode)
        onodes, oedges = layers.eval_layer_histories.last_observed   # the architecture's own modules/imports
        verdicts = set()
        for h, meta, (io, mo) in zip(hs, metas, res):
            out["n"] += 1
            out["stats"]["impl_" + io[0]] = out["stats"].get("impl_" + io[0], 0) + 1
            verdicts.add(io[0])
            exp = layer_oracle(onodes, oedges, c["arch_def"], c["subj"], c["objs"], meta["verb"], meta["imp"], meta["exc"], meta["anything"])
            case = dict(nodes=c["nodes"], edges=c["edges"], layers=[[a, b, v] for a, b, v in c["arch_calls"]], subject=c["subj"], objects=c["objs"],
                        rule=meta, mode=mode, impl=[io[0], io[1][:300]], model=[mo[0], str(sorted(map(str, mo[1])) if mo[0] == "FAIL" else mo[1])[:300]],
                        documented="pass" if exp else "fail")
            if io[0] == "ERR" or (io[0] == "PASS") != exp:
                out["violations"].append((case, f"layer rule {meta} on subject {c['subj']} objects {c['objs']}: verdict {io[0]} but documented semantics say {'pass' if exp else 'fail'}",
                                          {"kind": "layer", "regex_layers": any(k == "regex" for _, k, _ in c["arch_calls"])}))
                continue
            if not layers.same_layer_outcome(io, mo):
                out["disagreements"].append((case, f"model and implementation differ on layer rule {meta}: impl={io[0]} model={mo[0]}"))
        if len(verdicts) > 1:
            out["nontrivial"] += 1
        if not out["pairs"]:
            out["pairs"].append(pair)
        if not out["samples"]:
            out["samples"].append(dict(nodes=c["nodes"], edges=c["edges"], layers=[[a, b, v] for a, b, v in c["arch_calls"]], subject=c["subj"], objects=c["objs"]))
    return out


def regex_layer_with_any_layer(ctx: Ctx, n: int):
    """A layer given by a regex vs the same layer given by naming the modules the regex matches, for the two any-layer aliases
    (the twelve explicit shapes are covered by the main stream through anchored regexes, and by C11 for module rules).
    Known finding K3b: when the regex matches a module together with its own sub modules the two differ - the layer form of K3."""
    import re
    LA, LR = layers.impl()
    for _ in range(n):
        rng = ctx.rng
        nodes = rules.rand_tree(rng, rng.choice((rules.COLLISION_FREE, rules.ADVERSARIAL)), max_nodes=10)
        edges = rules.rand_edges(rng, nodes, 10)
        cand = [x for x in nodes if x != "r"]
        if len(cand) < 3:
            continue
        stem = rng.choice(cand)
        pat = rng.choice([re.escape(stem), re.escape(stem) + ".*", re.escape(stem) + "$"])
        matched = [x for x in nodes if re.match(pat, x)]
        others = [x for x in cand if not any(rules.related(x, m) for m in matched)]
        if not matched or not others:
            continue
        other = rng.choice(others)
        rel = any(rules.related(a, b) for a in matched for b in matched if a != b)
        arch = rules.make_arch_direct(nodes, edges)

        def la(by_regex):
            a = LA().layer("L1")
            a = a.have_modules_with_names_matching(pat) if by_regex else a.containing_modules(list(matched))
            return a.layer("L2").containing_modules([other])
        # the model is faithful to the code here (K3b included): a change of behaviour inside the known-finding class still shows
        # as a model / implementation disagreement
        hs_m = [[("based_on", [("L1", "regex", pat) if by_regex else ("L1", "list", list(matched)), ("L2", "list", [other])]), ("layers_that",), ("named", "L1"), ("should_not",), (meth_m,)]
                for by_regex in (True, False) for meth_m in ("access_any_layer", "be_accessed_by_any_layer")]
        res_m, _pair = layers.eval_layer_histories(nodes, edges, hs_m)
        for h_m, (io_m, mo_m) in zip(hs_m, res_m):
            if not layers.same_layer_outcome(io_m, mo_m):
                ctx.disagreement(dict(nodes=nodes, edges=edges, layers=[list(x) for x in h_m[0][1]], rule="L1 should_not " + h_m[-1][0], impl=[io_m[0], io_m[1][:200]], model=mo_m[0]),
                                 f"model and implementation differ on an any-layer rule: impl={io_m[0]} model={mo_m[0]}")
        for meth in ("access_any_layer", "be_accessed_by_any_layer"):
            outs = []
            for by_regex in (True, False):
                try:
                    r = getattr(LR().based_on(la(by_regex)).layers_that().are_named("L1").should_not(), meth)()
                    outs.append(rules.run_rule(r, arch))
                except Exception as e:  # noqa: BLE001
                    outs.append(("ERR", rules.classify_exception(e)))
            a, b = outs
            ctx.evaluations += 2
            ctx.stat("regex_layer_alias_" + ("related_matches" if rel else "unrelated_matches"))
            if a[0] != b[0] or (a[0] == "FAIL" and layers.parse_layer_message(a[1]) != layers.parse_layer_message(b[1])):
                ctx.violation(dict(nodes=nodes, edges=edges, pattern=pat, matched=matched, other_layer=[other], rule="L1 should_not " + meth, regex_layer=[a[0], a[1][:200]], named_layer=[b[0], b[1][:200]]),
                              f"layer L1 given by regex {pat!r}: 'should not {meth}' {a[0]}; the same layer given by naming its modules {matched}: {b[0]}",
                              {"kind": "regex_layer_alias", "regex_matches_related_modules": rel})
        ctx.mark_nontrivial(("rxlayer", pat, tuple(nodes)))


def empty_layer_name_stream(ctx, n):
    """A layer may be called anything, the empty string included: the verdicts of all rule shapes are those of the same layers
    under ordinary names (the API accepts "" as a layer name; which name a layer bears decides nothing)."""
    for _ in range(n):
        c = gen_case(ctx.rng)
        if c is None:
            continue
        c["obj_as_str"] = False
        arch = rules.make_arch_direct(c["nodes"], c["edges"])
        hs, metas = histories(c)
        base = [layers.run_lr_impl(h, arch)[0] for h in hs]
        for victim in {c["subj"], c["objs"][0]}:
            ren = lambda x: "" if x == victim else x
            c2 = dict(c, arch_calls=[(ren(L), k, v) for (L, k, v) in c["arch_calls"]], subj=ren(c["subj"]), objs=[ren(x) for x in c["objs"]])
            hs2, _ = histories(c2)
            out = [layers.run_lr_impl(h, arch)[0] for h in hs2]
            ctx.evaluations += len(out)
            ctx.stat("layer_named_with_the_empty_string")
            if out != base:
                i = next(i for i in range(len(out)) if out[i] != base[i])
                ctx.violation(dict(nodes=c["nodes"], edges=c["edges"], layers=[list(x) for x in c["arch_calls"]], layer_renamed_to_empty_string=victim, rule=metas[i], verdict=base[i], verdict_with_empty_name=out[i]),
                              f"layer rule verdict changes when layer {victim} is called '' instead", {"kind": "empty_layer_name"})
                break
        ctx.mark_nontrivial(("emptyname", tuple(c["nodes"])))


def run(ctx: Ctx):
    empty_layer_name_stream(ctx, 40 if ctx.quick else 1000)
    regex_layer_with_any_layer(ctx, 150 if ctx.quick else 4000)
    n = 4000 if ctx.quick else 120000
    per = 50
    jobs = [(ctx.rng.randrange(1 << 30), per, "scan" if i % 10 == 9 else "direct") for i in range(n // per)]
    with Pool(NCPU) as pool:
        rs = pool.map(_job, jobs, chunksize=1)
    for r in rs:
        rules.merge_into(ctx, r)
    ctx.stat("architectures", n)
    ctx.rule = (f"{n} random graphs (trees <=14 nodes, collision-free and adversarial names; 1/10 scanned from real file trees) x a partition of pairwise unrelated modules into 2-4 layers "
                "(some modules in no layer; each layer given as list, single string or anchored regex) x one subject layer and 1-2 object layers x 12 access-rule shapes + 2 any-layer aliases; "
                "real LayerRule verdict vs the documented layer semantics (python oracle) and vs the model (verdict + parsed report lines with layer tags); "
                "non-trivial = architecture on which the 14 shapes give different verdicts")


def replay(ctx: Ctx, path: str) -> int:
    r = json.load(open(path))
    c = r["case"]
    cc = dict(nodes=c["nodes"], edges=[tuple(e) for e in c["edges"]], arch_calls=[(a, b, v) for a, b, v in c["layers"]], subj=c["subject"], objs=c["objects"], obj_as_str=False)
    arch_def = {}
    for L, kind, val in cc["arch_calls"]:
        if kind == "regex":
            arch_def[L] = [m for m in c["nodes"] if re.match(val, m)]
        elif kind == "str":
            arch_def[L] = [val]
        else:
            arch_def[L] = list(val)
    hs, metas = histories(cc)
    res, _ = layers.eval_layer_histories(cc["nodes"], cc["edges"], hs, c.get("mode", "direct"))
    cc["nodes"], cc["edges"] = layers.eval_layer_histories.last_observed
    bad = 0
    for meta, (io, mo) in zip(metas, res):
        exp = layer_oracle(cc["nodes"], cc["edges"], arch_def, cc["subj"], cc["objs"], meta["verb"], meta["imp"], meta["exc"], meta["anything"])
        flag = io[0] == "ERR" or (io[0] == "PASS") != exp
        print(meta, io[0], "documented:", "pass" if exp else "fail", "<-- VIOLATES" if flag else "")
        bad += flag
    if bad:
        print(f"VIOLATION property=C05 replay={path}")
        return 1
    return 0
