"""C10 — external-library options affect only external modules, never internal ones."""
from __future__ import annotations

import json
import random
import re
from multiprocessing import Pool

from harness import common, rules, scan
from harness.common import Ctx, NCPU


def resolve_targets(root, dirs, files, mp):
    """Documented resolution of every import statement of the scanned files -> [(importer, target)]."""
    mods = {scan.dotted(d) for d in dirs if d[:len(mp)] == mp} | {scan.dotted(f) for f, v in files.items() if v["py"] and f[:len(mp)] == mp}
    aprefix = scan.dotted(mp[:-1]) if len(mp) > 1 else None

    def adj(n):
        if aprefix is not None and aprefix + "." + n in mods:
            return aprefix + "." + n
        return n
    out = []
    for f, v in files.items():
        if not v["py"] or f[:len(mp)] != mp:
            continue
        u = scan.dotted(f)

        def visit(s):
            if s[0] == "block":
                for c in s[2]:
                    visit(c)
            elif s[0] == "import":
                for n in s[1]:
                    out.append((u, adj(n)))
            elif s[0] == "from":
                _, lvl, mod, names = s
                for nm in names:
                    if lvl == 0:
                        c = adj(mod + "." + nm)
                        out.append((u, c if c in mods else adj(mod)))
                    else:
                        pkg = f[:-1]
                        b = scan.dotted(pkg[:len(pkg) - lvl + 1])
                        if mod is None:
                            out.append((u, b + "." + nm))
                        else:
                            c = b + "." + mod + "." + nm
                            out.append((u, c if c in mods else b + "." + mod))
        for s in v["body"]:
            visit(s)
    return mods, out


def documented_scan(root, dirs, files, mp, include_ext, ext_regexes):
    mods, targets = resolve_targets(root, dirs, files, mp)
    base = scan.dotted(mp)
    anc = {scan.dotted(mp[:i]) for i in range(1, len(mp))}

    def internal(m):
        return m == base or m.startswith(base + ".")

    def ancestors(m):
        parts = m.split(".")
        return [".".join(parts[:i]) for i in range(1, len(parts))]
    nodes = set(mods) | anc
    edges = set()
    cps = [re.compile(r) for r in ext_regexes]
    for u, t in targets:
        if internal(t):
            if t in mods and t != u:
                edges.add((u, t))
            continue
        if not include_ext:
            continue
        if any(re.match(cp, x) for cp in cps for x in [t] + ancestors(t)):
            continue
        nodes.add(t)
        nodes.update(ancestors(t))
        if t != u:
            edges.add((u, t))
    edges = {(a, b) for a, b in edges if not (b.startswith(a + ".") and b.count(".") == a.count(".") + 1)}
    return sorted(nodes), sorted(edges), {m for m in nodes if internal(m)}


def documented_glob_regex(p: str) -> str:
    """A glob pattern as the documentation defines it: literal text in full, a leading * any prefix, a trailing * any suffix."""
    import re
    st, en = p.startswith("*"), p.endswith("*") and len(p) > 1
    text = p[(1 if st else 0):(len(p) - 1 if en else len(p))]
    return (".*" if st else "") + re.escape(text) + (".*" if en else "$")


def gen_patterns(rng, dirs, files):
    names = [f[-1] for f in files] + [d[-1] for d in dirs] + ["handlers", "logging", "os", "etree", "xml"]
    n = rng.choice(names)
    return rng.choice([(n,), ("*" + n,), (n + "*",), ("*" + n + "*",), ("logging", "*" + n), ("os.path",), ("xml.*",), ("*.handlers",),
                       ("logging.handlers",), ("xml.etree",), ("os.path", "logging.handlers")])


def _job(args):
    conv = rules.partial_match_converter()
    seed, n = args
    rng = random.Random(seed)
    out = dict(n=0, nontrivial=0, stats={}, violations=[], disagreements=[], pairs=[], samples=[])
    for it in range(n):
        root, dirs, files = scan.gen_tree(rng, max_depth=4)
        scan.gen_imports(rng, dirs, files, externals=scan.EXTERNALS, nested=True)
        pyfiles = [f for f, v in files.items() if v["py"]]
        # imports of the root package itself, of names that are not modules, and relative imports leaving module_path
        for f in pyfiles:
            r = rng.random()
            if r < 0.15:
                files[f]["body"].append(("import", [root]))
            elif r < 0.3:
                files[f]["body"].append(("from", 1, None, ["helper"]))
            elif r < 0.45 and len(f) >= 3:
                files[f]["body"].append(("from", len(f) - 1, rng.choice(["other", "other.deep", "sib"]), ["x"]))
            elif r < 0.55:
                files[f]["body"].append(("from", 0, root, ["SOME_CONSTANT"]))
        base = scan.materialise(dirs, files)
        try:
            mps = [(root,)] + [d for d in dirs if len(d) > 1][:2]
            for mp in mps:
                glob = gen_patterns(rng, dirs, files)
                rx = tuple(documented_glob_regex(p) for p in glob)      # the documented meaning, not the library's own converter
                user_rx = rng.choice([(r"logging(\..*)?$",), (r"(os|xml)\b.*",), (r".*handlers$",), rx,
                                      # several patterns, a later one with a numbered back reference / an inline flag in the first: each pattern is matched on its own
                                      (r"(os|xml)\.path$", r"(\w+)\.\1(\.|$)", r"logging$"), (r"(?i)LOGGING\.handlers$", r"xml(\..*)?$"), (r"(x)(y)zzz", r"(\w)\w*\.\1.*")])
                configs = [
                    ("exclude", dict(), False, ()),
                    ("include", dict(exclude_external_libraries=False), True, ()),
                    ("include+glob", dict(exclude_external_libraries=False, external_exclusions=glob), True, rx),
                    ("include+regex", dict(exclude_external_libraries=False, regex_external_exclusions=user_rx), True, user_rx),
                    # external patterns combined with the OTHER kind of file exclusion option (glob external patterns while the file
                    # exclusions are given as regexes, and the reverse)
                    ("include+glob, file exclusions as regex", dict(exclude_external_libraries=False, external_exclusions=glob, exclusions=(), regex_exclusions=("zzzzNEVERzzzz",)), True, rx),
                    ("include+regex, file exclusions as glob", dict(exclude_external_libraries=False, regex_external_exclusions=user_rx, exclusions=("*zzzzNEVERzzzz*",)), True, user_rx),
                ]
                # a FILE exclusion pattern that textually matches the dotted name of an external module (and no path of the tree):
                # file patterns are about paths, an external module is not a path - same architecture as "include" alone
                xt = rng.choice(["logging.handlers", "xml.etree.ElementTree", "os.path", "projx.y", "loggingx", "Logging.Handlers", "os", "xml.etree"])
                if rng.random() < 0.5:
                    configs.append(("include + a file exclusion (glob) that matches an external module's name", dict(exclude_external_libraries=False, exclusions=("*" + xt if "." in xt else xt,)), True, ()))
                else:
                    configs.append(("include + a file exclusion (regex) that matches an external module's name",
                                    dict(exclude_external_libraries=False, exclusions=(), regex_exclusions=((".*" if "." in xt else "") + re.escape(xt) + "$",)), True, ()))
                # the pattern option that is not used passed explicitly as an empty tuple instead of being left out
                configs.append(("include+regex, glob patterns given as ()", dict(exclude_external_libraries=False, external_exclusions=(), regex_external_exclusions=user_rx), True, user_rx))
                configs.append(("include+glob, regex patterns given as ()", dict(exclude_external_libraries=False, external_exclusions=glob, regex_external_exclusions=()), True, rx))
                internal_views = []
                enc = rules.Enc()
                cases, metas = [], []
                for cname, kw, inc, rxs in configs:
                    r = scan.real_scan(base, root, mp, **kw)
                    out["n"] += 1
                    case = dict(dirs=[list(d) for d in dirs], files={scan.dotted(f): (scan.render_v(v) if v["py"] else None) for f, v in files.items()},
                                module_path=list(mp), config=cname, options={k: list(v) if isinstance(v, tuple) else v for k, v in kw.items()})
                    if r[0] != "OK":
                        out["violations"].append((dict(case, error=r[1]), f"scan with {cname} failed: {r[1]}", {"kind": "scan_error"}))
                        continue
                    _, mods, edges, _ = r
                    exp_nodes, exp_edges, internal = documented_scan(root, dirs, files, mp, inc, rxs)
                    if mods != exp_nodes or edges != exp_edges:
                        out["violations"].append((dict(case, modules_surplus=sorted(set(mods) - set(exp_nodes)), modules_missing=sorted(set(exp_nodes) - set(mods)),
                                                       edges_surplus=sorted(set(edges) - set(exp_edges)), edges_missing=sorted(set(exp_edges) - set(edges))),
                                                  f"configuration {cname}: architecture differs from the documented effect of the external-library options", {"kind": cname}))
                        continue
                    internal_views.append((cname, sorted(m for m in mods if m in internal), sorted(e for e in edges if e[0] in internal and e[1] in internal)))
                    # model: the external-exclusion oracle is the real re on every dotted name that can be tested
                    cand = set()
                    for _, t in resolve_targets(root, dirs, files, mp)[1]:
                        parts = t.split(".")
                        cand.update(".".join(parts[:i]) for i in range(1, len(parts) + 1))
                    xnames = sorted(x for x in cand if any(re.match(rr, x) for rr in rxs))
                    cases.append(scan.model_scan_case(enc, root, dirs, files, mp, exclude_external=not inc, excluded_ext_names=xnames, has_ext=bool(rxs)))
                    metas.append((cname, mods, edges, case))
                for a, b in zip(internal_views, internal_views[1:]):
                    if a[1:] != b[1:]:
                        out["violations"].append((dict(dirs=[list(d) for d in dirs], module_path=list(mp), config_a=a[0], config_b=b[0], internal_a=a[1:], internal_b=b[1:]),
                                                  f"internal modules/imports differ between configurations {a[0]} and {b[0]}", {"kind": "internal_invariance"}))
                res = common.model_run(cases)
                for (cname, mods, edges, case), w, m in zip(metas, cases, res):
                    d = scan.dec_scan(enc, m)
                    if d is None or d[0] != "OK" or d[1] != mods or d[2] != edges:
                        out["disagreements"].append((dict(case, impl_modules=mods, impl_edges=edges, model=str(d)[:500]), f"model scan and real scan differ ({cname})"))
                if not out["pairs"] and cases:
                    out["pairs"].append((cases[-1], res[-1]))
                if len(internal_views) == len(configs) and internal_views[1][1:] and any(m not in documented_scan(root, dirs, files, mp, False, ())[0] for m in scan.real_scan(base, root, mp, exclude_external_libraries=False)[1] or []):
                    out["nontrivial"] += 1
            if not out["samples"]:
                out["samples"].append(dict(dirs=[scan.dotted(d) for d in dirs], module_paths=[scan.dotted(m) for m in mps]))
        finally:
            scan.cleanup(base)
    return common.tag_job(out, __name__, "_job", list(args))


def run(ctx: Ctx):
    rules.MEMBER_SPELLING = True
    n = 160 if ctx.quick else 4000
    per = 10
    jobs = [(ctx.rng.randrange(1 << 30), per) for _ in range(n // per)]
    with Pool(NCPU) as pool:
        rs = pool.map(_job, jobs, chunksize=1)
    for r in rs:
        rules.merge_into(ctx, r)
    ctx.stat("projects", n)
    ctx.rule = (f"{n} random projects with internal and external imports (nested external packages, externals sharing prefixes/suffixes with internal names, imports of the root package itself, "
                "relatively imported names that are not modules, relative imports leaving module_path) x module_path in {root, two sub-directories} x {exclude, include, include+glob patterns, include+regex patterns} "
                "(patterns built from the project's own names so that they textually match internal modules too); real scan vs the documented effect (python oracle), internal view compared across the four "
                "configurations, everything compared with the model scan; non-trivial = project where including externals adds modules")


def replay(ctx: Ctx, path: str) -> int:
    r = json.load(open(path))
    c = r["case"]
    if "files" not in c:
        print("unsupported replay", json.dumps(c)[:300])
        return 2
    dirs = [tuple(d) for d in c["dirs"]]
    files, sources = {}, {}
    for k, src in c["files"].items():
        t = tuple(k.split("."))
        files[t] = {"py": src is not None, "body": []}
        if src is not None:
            sources[t] = src
    base = scan.materialise(dirs, files, sources)
    try:
        kw = {k: tuple(v) if isinstance(v, list) else v for k, v in c.get("options", {}).items()}
        res = scan.real_scan(base, dirs[0][0], tuple(c["module_path"]), **kw)
        print(res[:3])
        bad = [m for m in c.get("modules_surplus", []) if res[0] == "OK" and m in res[1]] + [m for m in c.get("modules_missing", []) if res[0] == "OK" and m not in res[1]] \
            + [e for e in c.get("edges_surplus", []) if res[0] == "OK" and tuple(e) in res[2]] + [e for e in c.get("edges_missing", []) if res[0] == "OK" and tuple(e) not in res[2]]
        if bad or res[0] != "OK":
            print("still failing:", bad[:5])
            print(f"VIOLATION property=C10 replay={path}")
            return 1
        return 0
    finally:
        scan.cleanup(base)
