"""C03 — violation reports name exactly the offending / missing imports.
Same case space as C01; the observable is the set of report lines."""
from __future__ import annotations

from harness.props import c01

c01_run = c01.run


def run(ctx):
    c01.run(ctx, lines=True)
    ctx.rule = ctx.rule.replace("each rule evaluated", "report lines (parsed from str(AssertionError)) compared as sets with the model's and, for strict rules, with the documented violating set; each rule evaluated")


def replay(ctx, path):
    c01.PID = "C03"
    return c01.replay(ctx, path)
