"""C03 — violation reports name exactly the offending / missing imports.
Same case space as C01; the observable is the set of report lines."""
from __future__ import annotations

from harness.props import c01

c01_run = c01.run


def same_stem_reports(ctx, n):
    """a.py beside a/ (one module name for a file and a package): the report of 'a should not import o' names the import
    written in a.py AND the one written in a/inner.py - whichever of the two the directory listing gives first."""
    import pathlib
    import shutil
    from pytestarch import get_evaluable_architecture
    from harness import common, rules, scan
    for it in range(n):
        rng = ctx.rng
        tw, inner, other = rng.sample(scan.POOL, 3)
        d = common.scratch_dir()
        try:
            root = d / "proj"
            (root / tw).mkdir(parents=True)
            (root / (other + ".py")).write_text("")
            (root / (tw + ".py")).write_text(f"import proj.{other}\n")
            (root / tw / (inner + ".py")).write_text(f"from proj import {other}\n")
            exp = frozenset({("C", f"proj.{tw}", f"proj.{other}"), ("C", f"proj.{tw}.{inner}", f"proj.{other}")})
            orig = pathlib.Path.iterdir
            for order in ("ascending", "descending"):
                def listed(self, _orig=orig, _o=order):
                    return iter(sorted(_orig(self), reverse=_o == "descending"))
                pathlib.Path.iterdir = listed
                try:
                    arch = get_evaluable_architecture(str(root), str(root))
                finally:
                    pathlib.Path.iterdir = orig
                for spec in (dict(subj=("named", [f"proj.{tw}"]), verbs=["should_not"], imp=True, exc=False, obj=("named", [f"proj.{other}"])),
                             dict(subj=("named", [f"proj.{other}"]), verbs=["should_not"], imp=False, exc=False, obj=("named", [f"proj.{tw}"]))):
                    io = rules.run_rule(rules.build_rule(spec), arch)
                    ctx.evaluations += 1
                    ctx.stat("reports_on_a_file_and_a_directory_of_one_name")
                    got = rules.parse_message(io[1]) if io[0] == "FAIL" else None
                    want = exp if spec["imp"] else frozenset(("C", b, a) for (_c, a, b) in exp)
                    if spec["imp"]:
                        ok = got == want
                    else:
                        ok = io[0] == "FAIL" and got is not None and {(l[1], l[2]) for l in got} in ({(a, b) for (_c, a, b) in exp}, {(b, a) for (_c, a, b) in exp})
                    if not ok:
                        ctx.violation(dict(tree=[f"proj/{tw}.py", f"proj/{tw}/{inner}.py", f"proj/{other}.py"], directory_listing=order, spec=rules._jsonable_spec(spec), result=[io[0], io[1][:300]]),
                                      f"{tw}.py beside {tw}/: the report does not name exactly the two offending imports", {"kind": "same_stem_report"})
            ctx.mark_nontrivial(("same_stem_report", tw, inner, other))
        finally:
            shutil.rmtree(d, ignore_errors=True)


def unusual_syntax_reports(ctx, n):
    """The offending import written where a line-oriented reader would not look: inside try ... except* ..., after a semicolon,
    on the header line of a compound statement - the report of 'a should not import o' names it like any other."""
    import shutil
    from pytestarch import get_evaluable_architecture
    from harness import common, rules, scan
    shapes = ["try:\n    import proj.{o}\nexcept* ImportError:\n    pass\n", "try:\n    pass\nexcept* ValueError:\n    from proj import {o}\n",
              "x = 1; import proj.{o}\n", "if x: import proj.{o}\n", "class K: from proj import {o}\n", "def f(): import proj.{o}\n",
              "try: import proj.{o}\nfinally: pass\n", "for i in (): pass\nelse: import proj.{o}\n"]
    for it in range(n):
        rng = ctx.rng
        a, o = rng.sample(scan.POOL, 2)
        d = common.scratch_dir()
        try:
            root = d / "proj"
            root.mkdir()
            (root / (o + ".py")).write_text("")
            shape = shapes[it % len(shapes)]
            (root / (a + ".py")).write_text(shape.format(o=o))
            arch = get_evaluable_architecture(str(root), str(root))
            io = rules.run_rule(rules.build_rule(dict(subj=("named", [f"proj.{a}"]), verbs=["should_not"], imp=True, exc=False, obj=("named", [f"proj.{o}"]))), arch)
            ctx.evaluations += 1
            ctx.stat("reports_on_imports_in_unusual_positions")
            if io[0] != "FAIL" or rules.parse_message(io[1]) != frozenset({("C", f"proj.{a}", f"proj.{o}")}):
                ctx.violation(dict(source=shape.format(o=o), result=[io[0], io[1][:300]]), "the report does not name the import written in an unusual position", {"kind": "unusual_syntax_report"})
            ctx.mark_nontrivial(("unusual", it % len(shapes)))
        finally:
            shutil.rmtree(d, ignore_errors=True)


def run(ctx):
    unusual_syntax_reports(ctx, 16 if ctx.quick else 200)
    same_stem_reports(ctx, 8 if ctx.quick else 200)
    c01.run(ctx, lines=True)
    ctx.rule = ctx.rule.replace("each rule evaluated", "report lines (parsed from str(AssertionError)) compared as sets with the model's and, for strict rules, with the documented violating set; each rule evaluated")


def replay(ctx, path):
    c01.PID = "C03"
    return c01.replay(ctx, path)
