"""Mutation campaign: how many small, syntactic changes of the library that the existing test suite does NOT notice do the
checks notice?

    /venv/bin/python harness/mutate.py --max 400 --jobs 8 --out mutation/report.json [--seed 1] [--files a.py,b.py]

For each mutant (one AST-level change of one source file): a scratch copy of the repository (outside /repo and /verif, under
/dev/shm, removed at the end) gets the mutated file; the pinned test suite is run on the copy; if it still passes, the quick
checks of the properties anchored in that file are run against the copy (VERIF_REPO / VERIF_OUT: /repo, the committed
evidence and the replays of /verif are never touched; the proof stage is skipped, the Coq development does not depend on the
repository).  A mutant no mapped check notices is then run against ALL checks.  Result per mutant: killed by the suite /
caught by <check> (violation | no-failing-input) / survived.  Survivors are listed for manual triage (equivalent mutants
are expected among them).  This is an evaluation tool, not a check: nothing registered in MANIFEST.json uses it."""
from __future__ import annotations

import argparse
import ast
import copy
import json
import os
import random
import shutil
import subprocess
import sys
import time
from concurrent.futures import ThreadPoolExecutor
from pathlib import Path

VERIF = Path(__file__).resolve().parent.parent
REPO = Path("/repo")
ALL = [f"C{i:02d}" for i in range(1, 18)]
SKIP_FILES = ("__init__.py", "exceptions.py", "decorators.py")


def file_map():
    m = {}
    for l in open(VERIF / "properties.jsonl"):
        d = json.loads(l)
        for f in d["anchors"]["files"]:
            if f.startswith("src/") and f.endswith(".py"):
                m.setdefault(f, []).append(d["id"])
    return m


SWAP_CMP = {ast.Eq: ast.NotEq, ast.NotEq: ast.Eq, ast.Lt: ast.LtE, ast.LtE: ast.Lt, ast.Gt: ast.GtE, ast.GtE: ast.Gt,
            ast.In: ast.NotIn, ast.NotIn: ast.In, ast.Is: ast.IsNot, ast.IsNot: ast.Is}


class Sites(ast.NodeVisitor):
    """Enumerates mutation sites as (kind, path-to-node) pairs; the path is a list of (field, index) steps from the module."""

    def __init__(self):
        self.sites = []
        self.path = []

    def generic_visit(self, node):
        for field, value in ast.iter_fields(node):
            if isinstance(value, list):
                for i, item in enumerate(value):
                    if isinstance(item, ast.AST):
                        self.path.append((field, i))
                        self.visit(item)
                        self.path.pop()
            elif isinstance(value, ast.AST):
                self.path.append((field, None))
                self.visit(value)
                self.path.pop()

    def add(self, kind, node):
        self.sites.append((kind, list(self.path), getattr(node, "lineno", 0)))

    def visit(self, node):
        if isinstance(node, ast.Compare) and len(node.ops) == 1 and type(node.ops[0]) in SWAP_CMP:
            self.add("swap_compare", node)
        if isinstance(node, ast.BoolOp):
            self.add("swap_and_or", node)
        if isinstance(node, ast.UnaryOp) and isinstance(node.op, ast.Not):
            self.add("drop_not", node)
        if isinstance(node, (ast.If, ast.While, ast.IfExp)):
            self.add("negate_test", node)
        if isinstance(node, ast.Constant):
            if node.value is True or node.value is False:
                self.add("flip_bool", node)
            elif isinstance(node.value, int) and -2 <= node.value <= 3:
                self.add("int_plus_one", node)
                self.add("int_minus_one", node)
            elif node.value == ".":
                self.add("dot_to_empty", node)
        if isinstance(node, ast.BinOp) and isinstance(node.op, ast.Add) and isinstance(node.right, ast.Constant) and isinstance(node.right.value, str):
            self.add("drop_added_string", node)
        if isinstance(node, ast.Call) and isinstance(node.func, ast.Name) and node.func.id in ("sorted", "set", "list", "tuple") and len(node.args) == 1 and not node.keywords:
            self.add("drop_wrapper_call", node)
        if isinstance(node, ast.Call) and isinstance(node.func, ast.Attribute) and node.func.attr in ("startswith", "endswith"):
            self.add("swap_startswith_endswith", node)
        if isinstance(node, (ast.Continue, ast.Break)):
            self.add("continue_break_to_pass", node)
        if isinstance(node, ast.Expr) and isinstance(node.value, ast.Call) and isinstance(node.value.func, ast.Attribute) and \
                node.value.func.attr in ("add", "append", "update", "extend", "remove", "discard", "pop"):
            self.add("drop_mutating_call", node)
        if isinstance(node, ast.Raise):
            self.add("raise_to_pass", node)
        if isinstance(node, ast.Subscript) and isinstance(node.slice, ast.UnaryOp) and isinstance(node.slice.op, ast.USub):
            self.add("negative_index_to_zero", node)
        if isinstance(node, ast.Return) and node.value is not None and not isinstance(node.value, ast.Constant):
            self.add("return_none", node)
        # never descend into docstrings / type-checking-only constants: harmless anyway
        self.generic_visit(node)


def node_at(tree, path):
    node = tree
    for field, idx in path:
        node = getattr(node, field) if idx is None else getattr(node, field)[idx]
    return node


def replace_at(tree, path, new):
    parent = node_at(tree, path[:-1])
    field, idx = path[-1]
    if idx is None:
        setattr(parent, field, new)
    else:
        getattr(parent, field)[idx] = new


def mutate(tree, kind, path):
    t = copy.deepcopy(tree)
    n = node_at(t, path)
    if kind == "swap_compare":
        n.ops = [SWAP_CMP[type(n.ops[0])]()]
    elif kind == "swap_and_or":
        n.op = ast.Or() if isinstance(n.op, ast.And) else ast.And()
    elif kind == "drop_not":
        replace_at(t, path, n.operand)
    elif kind == "negate_test":
        n.test = ast.UnaryOp(op=ast.Not(), operand=n.test)
    elif kind == "flip_bool":
        n.value = not n.value
    elif kind == "int_plus_one":
        n.value = n.value + 1
    elif kind == "int_minus_one":
        n.value = n.value - 1
    elif kind == "dot_to_empty":
        n.value = ""
    elif kind == "drop_added_string":
        replace_at(t, path, n.left)
    elif kind == "drop_wrapper_call":
        replace_at(t, path, n.args[0])
    elif kind == "swap_startswith_endswith":
        n.func.attr = "endswith" if n.func.attr == "startswith" else "startswith"
    elif kind in ("continue_break_to_pass", "drop_mutating_call", "raise_to_pass"):
        replace_at(t, path, ast.Pass())
    elif kind == "negative_index_to_zero":
        n.slice = ast.Constant(value=0)
    elif kind == "return_none":
        n.value = ast.Constant(value=None)
    else:
        raise ValueError(kind)
    ast.fix_missing_locations(t)
    return ast.unparse(t) + "\n"


def enumerate_mutants(files):
    out = []
    for rel in files:
        src = (REPO / rel).read_text()
        tree = ast.parse(src)
        s = Sites()
        s.visit(tree)
        for kind, path, line in s.sites:
            try:
                new = mutate(tree, kind, path)
            except Exception:  # noqa: BLE001
                continue
            if new.strip() == ast.unparse(tree).strip():
                continue
            out.append(dict(file=rel, kind=kind, line=line, source=new))
    return out


def sh(cmd, env=None, cwd=None, timeout=900):
    try:
        return subprocess.run(cmd, capture_output=True, text=True, env=env, cwd=cwd, timeout=timeout)
    except subprocess.TimeoutExpired as e:
        return subprocess.CompletedProcess(cmd, 124, stdout=(e.stdout or b"").decode() if isinstance(e.stdout, bytes) else (e.stdout or ""), stderr="timeout")


def run_check(pid, copy_dir, out_dir, ncpu):
    env = dict(os.environ, VERIF_REPO=str(copy_dir), VERIF_OUT=str(out_dir), VERIF_CAMPAIGN_NO_PROOF="1", VERIF_NCPU=str(ncpu), PYTHONHASHSEED="0",
               VERIF_BUDGET_S="300")
    p = sh([str(VERIF / "check"), pid, "--tier", "quick"], env=env, cwd=str(VERIF), timeout=900)
    if p.returncode == 124:
        return dict(check=pid, kind="hang", what="the check itself did not return within 900 s")
    lines = [l for l in p.stdout.split("\n") if l.startswith("VIOLATION")]
    if not lines:
        return None
    kind = "no-failing-input" if lines[0].rstrip().endswith("no-failing-input-found") else "violation"
    what = ""
    try:
        rp = lines[0].split("replay=")[1].split()[0]
        j = json.loads(Path(rp).read_text())
        what = (j.get("what") or json.dumps(j.get("no_longer_checks", ""))[:160])[:160]
    except Exception:  # noqa: BLE001
        pass
    return dict(check=pid, kind=kind, what=what)


def worker(k, queue, results, fmap, ncpu, lock):
    base = Path(f"/dev/shm/mutation_campaign/w{k}")
    copy_dir, out_dir = base / "repo", base / "out"
    shutil.rmtree(base, ignore_errors=True)
    copy_dir.mkdir(parents=True)
    subprocess.run(["rsync", "-a", "--exclude", ".git", str(REPO) + "/", str(copy_dir) + "/"], check=True)
    out_dir.mkdir(parents=True, exist_ok=True)
    try:
        while True:
            with lock:
                if not queue:
                    return
                m = queue.pop()
            target = copy_dir / m["file"]
            orig = target.read_text()
            rec = dict(file=m["file"], kind=m["kind"], line=m["line"])
            t0 = time.time()
            try:
                target.write_text(m["source"])
                p = sh(["/venv/bin/python", str(VERIF / "harness" / "baseline_check.py"), str(copy_dir)], timeout=400)
                if "missing=0" not in p.stdout:
                    rec["status"] = "killed_by_suite"
                else:
                    mapped = fmap.get(m["file"], [])
                    hit = None
                    for pid in mapped:
                        hit = run_check(pid, copy_dir, out_dir, ncpu)
                        if hit:
                            break
                    if not hit:
                        for pid in [x for x in ALL if x not in mapped]:
                            hit = run_check(pid, copy_dir, out_dir, ncpu)
                            if hit:
                                hit["outside_mapped"] = True
                                break
                    rec["status"] = "caught" if hit else "survived"
                    rec["by"] = hit
                    if not hit:
                        import difflib
                        rec["diff"] = "".join(list(difflib.unified_diff(ast.unparse(ast.parse(orig)).splitlines(True), m["source"].splitlines(True), n=1))[2:])[:1200]
            finally:
                target.write_text(orig)
            rec["seconds"] = round(time.time() - t0, 1)
            with lock:
                results.append(rec)
                done = len(results)
            print(f"[{done}] {rec['status']:16s} {m['file'].split('/')[-1]}:{m['line']} {m['kind']} {(rec.get('by') or {}).get('check', '')}", flush=True)
    finally:
        shutil.rmtree(base, ignore_errors=True)


def main():
    ap = argparse.ArgumentParser()
    ap.add_argument("--max", type=int, default=300)
    ap.add_argument("--jobs", type=int, default=8)
    ap.add_argument("--seed", type=int, default=1)
    ap.add_argument("--files", default=None)
    ap.add_argument("--out", default=str(VERIF / "mutation" / "report.json"))
    ap.add_argument("--survivors-of", default=None, help="re-run only the mutants an earlier report lists as survivors")
    a = ap.parse_args()
    fmap = file_map()
    files = a.files.split(",") if a.files else sorted(f for f in fmap if not f.endswith(SKIP_FILES))
    muts = enumerate_mutants(files)
    if a.survivors_of:
        keep = {(r["file"], r["line"], r["kind"]) for r in json.loads(Path(a.survivors_of).read_text())["survivors"]}
        muts = [m for m in muts if (m["file"], m["line"], m["kind"]) in keep]
    rng = random.Random(a.seed)
    rng.shuffle(muts)
    total = len(muts)
    muts = muts[: a.max]
    import threading
    lock = threading.Lock()
    results = []
    queue = list(muts)
    ncpu = max(1, 16 // a.jobs)
    t0 = time.time()
    with ThreadPoolExecutor(a.jobs) as ex:
        futs = [ex.submit(worker, k, queue, results, fmap, ncpu, lock) for k in range(a.jobs)]
        for f in futs:
            f.result()
    shutil.rmtree("/dev/shm/mutation_campaign", ignore_errors=True)
    summary = {}
    for r in results:
        summary[r["status"]] = summary.get(r["status"], 0) + 1
    surv_suite = [r for r in results if r["status"] != "killed_by_suite"]
    head = subprocess.run(["git", "-C", str(REPO), "log", "--format=%h", "-1"], capture_output=True, text=True).stdout.strip()
    rep = dict(repo_head=head, enumerated_mutants=total, sampled=len(muts), seed=a.seed, wall_s=round(time.time() - t0), summary=summary,
               suite_survivors=len(surv_suite), caught_among_suite_survivors=sum(1 for r in surv_suite if r["status"] == "caught"),
               by_check=_count([r["by"]["check"] for r in surv_suite if r.get("by")]),
               by_kind=_count([r["by"]["kind"] for r in surv_suite if r.get("by")]),
               survivors=[r for r in results if r["status"] == "survived"], all=sorted(results, key=lambda r: (r["file"], r["line"], r["kind"])))
    Path(a.out).parent.mkdir(parents=True, exist_ok=True)
    Path(a.out).write_text(json.dumps(rep, indent=1))
    print(json.dumps({k: rep[k] for k in ("enumerated_mutants", "sampled", "summary", "suite_survivors", "caught_among_suite_survivors", "by_kind", "wall_s")}))


def _count(xs):
    d = {}
    for x in xs:
        d[x] = d.get(x, 0) + 1
    return dict(sorted(d.items()))


if __name__ == "__main__":
    main()
