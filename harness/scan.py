"""Shared code for the scan-side properties (C02, C04, C08b, C09, C10): abstract projects,
materialiser (real file trees on /dev/shm under digit-only scratch names), real scan,
model scan (fn 20)."""
from __future__ import annotations

import os
import random
import re
import shutil
from pathlib import Path

from harness import common, rules

POOL = ["a", "ab", "a_b", "aa", "b", "ba", "c", "x1", "_a", "A", "caf\u00e9"]
EXTERNALS = ["os", "logging", "logging.handlers", "xml.etree.ElementTree", "loggingx", "handlers", "ab", "a", "proj2", "projx.y", "os.path",
             "logging_handlers", "loggingXhandlers.api", "os_path", "xml_etree.x",     # look-alikes of dotted names (the dot read as "any character")
             "Logging", "Logging.Handlers", "OS.path", "XML.etree"]                    # twins that differ in case only: patterns are case sensitive


# --------------------------------------------------------------------------
# abstract projects
# dirs: list of tuples (root, c1, ..); files: {tuple: {"py": bool, "body": [stmt]}}
# stmt: ("import", [dotted, ...]) | ("from", level, dotted|None, [names]) | ("block", kind, [stmt]) | ("other",)


TWINS = [False]      # switched on by the checks that are prepared for it (C02, C03 through the scan stream, C15)


def gen_tree(rng, max_depth=4, root=None, with_init=True, nonpy=True):
    root = root or rng.choice(["proj", "p", "pr"])
    dirs = [(root,)]
    files = {}
    # directory names that repeat or extend the root directory's own name (proj/proj, proj/proj_core)
    pool = POOL + [root, root + "_core", root + "x"]
    big = rng.random() < 0.1        # now and then a larger project: more directories and files, numbered names
    if big:
        pool = pool + ["m%d" % i for i in range(12)]
    for _ in range(rng.randint(6, 14) if big else rng.randint(1, 5)):
        p = dirs[-1] if (big and rng.random() < 0.6) else rng.choice(dirs)      # larger projects also get long directory chains
        if len(p) < (max_depth + 4 if big else max_depth):
            d = p + (rng.choice(pool),)
            if d not in dirs and d not in files:
                dirs.append(d)
    for d in dirs:
        for _ in range(rng.randint(0, 6) if big else rng.randint(0, 3)):
            f = d + (rng.choice(pool),)
            if f not in dirs and f not in files:
                files[f] = {"py": True, "body": []}
    if TWINS[0] and rng.random() < 0.15:
        # a module file next to a package directory of the same name (a.py beside a/): both exist on disk, they share one
        # module name - the package's sub modules and the file's import statements all belong to the architecture
        cand = [d for d in dirs if len(d) > 1 and d not in files]
        if cand:
            files[rng.choice(cand)] = {"py": True, "body": []}
        if with_init and rng.random() < 0.5:
            files[d + ("__init__",)] = {"py": True, "body": []}
        if nonpy and rng.random() < 0.2:
            nm = rng.choice(["notes", "data", "readme"])
            if d + (nm,) not in files and d + (nm,) not in dirs:
                files[d + (nm,)] = {"py": False, "body": []}
    return root, dirs, files


class DirList(list):
    """list of directories that also knows which of them are symbolic links: links[link_dir] = target_dir"""
    links: dict


def max_relative_level(body) -> int:
    return max([s0[1] for s0 in import_statements(body) if s0[0] == "from"] or [0])


def add_links(rng, dirs, files):
    """Symbolic links inside the project: a .py file linked under another name / in another package, a package directory linked
    under another name.  A link is what its path says (that is how Python imports it): abstractly the linked file / sub tree
    simply exists a second time, with the same statements.  Call AFTER gen_imports.  -> dirs (a DirList)"""
    out = DirList(dirs)
    out.links = {}
    root = dirs[0]
    pyfiles = [f for f, v in files.items() if v["py"] and f[-1] != "__init__"]
    if pyfiles and rng.random() < 0.7:
        t = rng.choice(pyfiles)
        d = rng.choice(list(dirs))
        name = rng.choice(["lnk", "alias_mod", t[-1] + "_l"])
        # (only where every relative import of the file still stays inside the project at the new place)
        if d + (name,) not in files and d + (name,) not in dirs and max_relative_level(files[t]["body"]) <= len(d):
            files[d + (name,)] = dict(files[t], link_to=t)
    cands = [t for t in dirs if len(t) >= 2]
    if cands and rng.random() < 0.6:
        t = rng.choice(cands)
        hosts = [d for d in dirs if d[:len(t)] != t]          # not inside the target (no link cycles)
        if hosts:
            d = rng.choice(hosts)
            link = d + (rng.choice(["lnkd", "alias_pkg", t[-1] + "_l"]),)
            ok_levels = all(max_relative_level(v["body"]) <= len(link + f[len(t):]) - 1 for f, v in files.items() if f[:len(t)] == t and v["py"])
            if ok_levels and link not in out and link not in files and not any(x[:len(link)] == link for x in list(out) + list(files)):
                out.links[link] = t
                for x in [x for x in dirs if x[:len(t)] == t]:
                    out.append(link + x[len(t):])
                for f, v in list(files.items()):
                    if f[:len(t)] == t:
                        files[link + f[len(t):]] = dict(v, inside_link=True, link_to=None)
    return out


def dotted(t):
    return ".".join(t)


BLOCK_KINDS = ["def", "class", "if", "if_else", "try", "for_else", "while_else", "with", "async_def", "type_checking", "try_import_error", "method", "match"]
# one-line spellings: the import does not start a physical line ("if x: import a", "x = 1; import a", ...)
INLINE_KINDS = ["if_inline", "def_inline", "class_inline", "for_inline", "while_inline", "with_inline", "semi"]


def gen_import_stmt(rng, f, mods, externals=()):
    """One import statement inside file f (tuple path) referring to modules of the project."""
    form = rng.choice(["abs", "abs", "abs_multi", "from_mod_name", "from_pkg_mod", "rel", "star"] + (["ext"] if externals else []))
    tgt = rng.choice(mods)
    if form == "ext":
        e = rng.choice(externals)
        if rng.random() < 0.5 or "." not in e:
            return ("import", [e])
        return ("from", 0, e.rsplit(".", 1)[0], [e.rsplit(".", 1)[1]])
    if form == "abs":
        return ("import", [dotted(tgt)])
    if form == "abs_multi":
        return ("import", [dotted(tgt), dotted(rng.choice(mods))])
    if form == "from_mod_name":
        return ("from", 0, dotted(tgt), [rng.choice(["some_name", "helper", "X"])])
    if form == "star":
        return ("from", 0, dotted(tgt), ["*"])
    if form == "from_pkg_mod":
        if len(tgt) >= 2:
            # one statement listing sub modules of the package and names that are no modules (objects defined in the
            # package), in any order: every sub module named is imported, whatever stands before it
            names = [tgt[-1]]
            sibs = [m[-1] for m in mods if m[:-1] == tgt[:-1] and m != tgt]
            if sibs and rng.random() < 0.3:
                names.append(rng.choice(sibs))
            for _ in range(rng.choice([0, 0, 1, 2])):
                names.append(rng.choice(["other_name", "VERSION", "helper"]))
            names = list(dict.fromkeys(names))
            rng.shuffle(names)
            return ("from", 0, dotted(tgt[:-1]), names)
        return ("import", [dotted(tgt)])
    pkg = f[:-1]
    lvl = rng.randint(1, len(pkg))
    base = pkg[:len(pkg) - lvl + 1]
    cands = [m for m in mods if m[:len(base)] == base and len(m) > len(base)]
    if not cands:
        return ("import", [dotted(tgt)])
    t = rng.choice(cands)
    rest = t[len(base):]
    if len(rest) == 1:
        return ("from", lvl, None, [rest[0]])
    return ("from", lvl, dotted(rest[:-1]), [rest[-1]])


def gen_imports(rng, dirs, files, externals=(), nested=True, per_file=4, styled=True):
    mods = list(dirs) + [f for f, v in files.items() if v["py"]]
    for f, v in files.items():
        if not v["py"]:
            continue
        body = []
        all_inline = nested and rng.random() < 0.12     # a file in which no import statement starts a line
        for _ in range(rng.randint(0, per_file)):
            s = gen_import_stmt(rng, f, mods, externals)
            if nested and (all_inline or rng.random() < 0.12):
                s = ("block", rng.choice(INLINE_KINDS), [s])
            depth = rng.choice([0, 0, 1, 2]) if nested else 0
            for _ in range(depth):
                s = ("block", rng.choice(BLOCK_KINDS), [s] + ([("other",)] if rng.random() < 0.3 else []))
            body.append(s)
        v["body"] = body
        if styled and rng.random() < 0.3:
            v["style"] = rng.randrange(1 << 30)      # a semantics-preserving spelling of the file's text (see render_file)


# --------------------------------------------------------------------------
# rendering to Python source


class Style:
    """Semantics-preserving spellings of a source file, drawn from one seed: aliases ('import a.b as c'), parenthesised
    multi-line and backslash-continued imports, comments and string literals that contain import statements, tabs,
    trailing blanks, blank lines, CRLF line ends, a UTF-8 byte order mark, no final newline."""

    def __init__(self, seed):
        r = random.Random(seed)
        self.r = r
        self.alias = r.random() < 0.5
        self.paren = r.random() < 0.4
        self.cont = r.random() < 0.3
        self.comments = r.random() < 0.5
        self.strings = r.random() < 0.5
        self.tabs = r.random() < 0.25
        self.trailing = r.random() < 0.3
        self.blank = r.random() < 0.4
        self.crlf = r.random() < 0.3
        self.bom = r.random() < 0.2
        self.no_final_newline = r.random() < 0.2
        self.k = 0

    def fresh(self):
        self.k += 1
        return f"_al{self.k}"


def render_import(s, pad, st):
    """the import statement itself, possibly spelt over several physical lines"""
    r = st.r if st else None
    if s[0] == "import":
        names = [n + (" as " + st.fresh() if st and st.alias and r.random() < 0.5 else "") for n in s[1]]
        if st and st.cont and r.random() < 0.5:
            return [pad + "import \\", pad + "    " + ", ".join(names)]
        return [pad + "import " + ", ".join(names)]
    _, lvl, mod, names = s
    src = f"{'.' * lvl}{mod or ''}"
    if names != ["*"]:
        names = [n + (" as " + st.fresh() if st and st.alias and r.random() < 0.5 else "") for n in names]
        if st and st.paren and r.random() < 0.6:
            return [pad + f"from {src} import ("] + [pad + "    " + n + ",  # import " + n for n in names] + [pad + ")"]
    if st and st.cont and r.random() < 0.5:
        return [pad + f"from {src} \\", pad + f"    import {', '.join(names)}"]
    return [pad + f"from {src} import {', '.join(names)}"]


def render_stmt(s, ind=0, st=None):
    pad = "    " * ind
    if s[0] in ("import", "from"):
        return render_import(s, pad, st)
    if s[0] == "other":
        return [pad + "x = 1"]
    _, kind, children = s
    if kind in INLINE_KINDS:
        one = render_import(children[0], "", st) if children[0][0] in ("import", "from") else render_stmt(children[0], 0, st)
        head = {"if_inline": "if x: ", "def_inline": "def f(): ", "class_inline": "class K: ", "for_inline": "for i in range(3): ",
                "while_inline": "while x: ", "with_inline": "with open('f') as fh: ", "semi": "x = 1; "}[kind]
        return [pad + head + one[0]] + [pad + l for l in one[1:]]
    inner = []
    for c in children:
        inner.extend(render_stmt(c, ind + 1, st))
    if not inner:
        inner = [pad + "    pass"]
    filler = [pad + "    pass"]
    half = max(1, len(children) // 2)
    first, second = [], []
    for i, c in enumerate(children):
        (first if i < half else second).extend(render_stmt(c, ind + 1, st))
    first = first or filler
    second = second or filler
    if kind == "def":
        return [pad + "def f():"] + inner
    if kind == "async_def":
        return [pad + "async def g():"] + inner
    if kind == "class":
        return [pad + "class K:"] + inner
    if kind == "method":
        body = []
        for c in children:
            body.extend(render_stmt(c, ind + 2, st))
        return [pad + "class K2:", pad + "    def m(self):"] + (body or [pad + "        pass"])
    if kind == "if":
        return [pad + "if x:"] + inner
    if kind == "type_checking":
        return [pad + "if TYPE_CHECKING:"] + inner
    if kind == "with":
        return [pad + "with open('f') as fh:"] + inner
    if kind == "if_else":
        return [pad + "if x:"] + first + [pad + "elif y:"] + filler + [pad + "else:"] + second
    if kind == "for_else":
        return [pad + "for i in range(3):"] + first + [pad + "else:"] + second
    if kind == "while_else":
        return [pad + "while x:"] + first + [pad + "else:"] + second
    if kind == "try":
        return [pad + "try:"] + first + [pad + "except ValueError:"] + second + [pad + "else:"] + filler + [pad + "finally:"] + filler
    if kind == "match":
        deeper = lambda ls: ["    " + l for l in ls]
        return [pad + "match x:", pad + "    case 1:"] + deeper(first) + [pad + "    case _:"] + deeper(second)
    if kind == "try_import_error":
        return [pad + "try:"] + first + [pad + "except ImportError:"] + second
    raise ValueError(kind)


FAKE_IMPORT_LINES = ["import notreal_zz.sub", "from notreal_zz import thing", "from . import notreal_yy", "import os, notreal_xx"]


def render_file(body, style=None):
    """Source text of a file; `style` (a seed) selects one of its semantics-preserving spellings."""
    st = Style(style) if style is not None else None
    out = []
    if st and st.strings:
        out += ['"""module docs', st.r.choice(FAKE_IMPORT_LINES), '"""']
    for s in body:
        if st and st.comments and st.r.random() < 0.5:
            out.append("# " + st.r.choice(FAKE_IMPORT_LINES))
        if st and st.blank and st.r.random() < 0.4:
            out.append("")
        lines = render_stmt(s, 0, st)
        if st and st.comments and st.r.random() < 0.4 and not lines[-1].rstrip().endswith("\\"):
            lines[-1] += "  # " + st.r.choice(FAKE_IMPORT_LINES)
        out.extend(lines)
        if st and st.strings and st.r.random() < 0.3:
            out.append("text = " + repr(st.r.choice(FAKE_IMPORT_LINES)))
    if st and st.tabs:
        # tabs for the block indentation (never inside brackets or after a backslash, where leading blanks are free anyway)
        def tab(l):
            n = len(l) - len(l.lstrip(" "))
            return "\t" * (n // 4) + " " * (n % 4) + l.lstrip(" ")
        out = [tab(l) for l in out]
    if st and st.trailing:
        out = [l + ("  " if (l and not l.endswith("\\") and st.r.random() < 0.5) else "") for l in out]
    eol = "\r\n" if st and st.crlf else "\n"
    text = eol.join(out) + ("" if st and st.no_final_newline and out else eol)
    if st and st.bom:
        text = "\ufeff" + text
    return text


def render_v(v):
    return render_file(v["body"], v.get("style"))


AWKWARD_PARENT = "w8.5 (q)+[z] \u00e9#"
_MAT = [0]


def materialise(dirs, files, sources=None):
    """-> base directory (digits only); root_path = base/<root>."""
    base = common.scratch_dir()
    _MAT[0] += 1
    if _MAT[0] % 4 == 0:
        # every fourth project lives below a directory whose name has blanks, dots, brackets, a plus sign and a non-ASCII letter:
        # nothing above the root directory may influence module names, exclusions are matched on the whole path
        base = base / AWKWARD_PARENT
        base.mkdir()
    links = getattr(dirs, "links", {})

    def below_link(p):
        return any(p[:len(l)] == l and len(p) > len(l) for l in links) or False
    for p in dirs:
        if p in links or below_link(p):
            continue
        os.makedirs(os.path.join(base, *p), exist_ok=True)
    for f, v in files.items():
        if below_link(f) or any(f[:len(l)] == l for l in links):
            continue
        if v.get("link_to"):
            continue
        suffix = ".py" if v["py"] else ".txt"
        with open(os.path.join(base, *f[:-1], f[-1] + suffix), "w", encoding="utf-8", newline="") as fh:
            fh.write(sources[f] if sources and f in sources else render_v(v))
    for f, v in files.items():
        if v.get("link_to") and not below_link(f) and not any(f[:len(l)] == l for l in links):
            dst = os.path.join(base, *f[:-1], f[-1] + ".py")
            src = os.path.join(base, *v["link_to"][:-1], v["link_to"][-1] + ".py")
            os.symlink(os.path.relpath(src, os.path.dirname(dst)), dst)
    for l, t in links.items():
        dst = os.path.join(base, *l)
        os.symlink(os.path.relpath(os.path.join(base, *t), os.path.dirname(dst)), dst)
    return base


_SPELLING = [0]


def spelling_index(root, mp, kw) -> int:
    """which spelling a scan uses: a fixed function of its arguments, so that a replay spells the paths the same way"""
    import zlib
    return zlib.crc32(repr((root, tuple(mp), sorted((k, repr(v)) for k, v in kw.items()))).encode()) % 12


SPELLING_NAMES = {1: "module_path with trailing separator", 3: "pathlib.Path objects", 5: "both with trailing separator", 7: "'.' segment and doubled separator in module_path",
                  9: "'x/../x' detours in both", 11: "relative to the current directory"}


def spell_paths(root_path: str, module_path: str, k: int = 0):
    """Equivalent spellings of the two path arguments, rotated deterministically: plain strings, a trailing separator on
    module_path, pathlib.Path objects, trailing separators on both, a '.' segment, a 'x/../x' detour, doubled separators,
    and paths relative to the current directory.  -> (root_path, module_path, directory to make current or None)"""
    import pathlib
    if k == 1:
        return root_path, module_path + os.sep, None
    if k == 3:
        return pathlib.Path(root_path), pathlib.Path(module_path), None
    if k == 5:
        return root_path + os.sep, module_path + os.sep, None
    if k == 7:
        # a '.' segment and a doubled separator
        d, b = os.path.split(module_path)
        return root_path, d + os.sep + "." + os.sep + os.sep + b, None
    if k == 9:
        # down and up again: .../x/../x
        d, b = os.path.split(module_path)
        dr, br = os.path.split(root_path)
        return dr + os.sep + br + os.sep + ".." + os.sep + br, module_path + os.sep + ".." + os.sep + b, None
    if k == 11:
        # relative to the directory that holds the root directory
        base = os.path.dirname(root_path)
        return os.path.relpath(root_path, base), os.path.relpath(module_path, base), base
    return root_path, module_path, None


def real_scan(base, root, mp, **kw):
    """-> ('OK', modules, edges) | ('ERR', type name)."""
    from pytestarch import get_evaluable_architecture
    cwd = None
    try:
        k = spelling_index(root, mp, kw)
        rp, mpp, chdir = spell_paths(os.path.join(base, root), os.path.join(base, *mp), k)
        if chdir is not None:
            cwd = os.getcwd()
            os.chdir(chdir)
        arch = rules.cpu_limited(lambda: get_evaluable_architecture(rp, mpp, **kw), 20)
    except rules.EvaluationTimeout as e:
        return ("ERR", "NonTermination: the scan gave " + str(e), None)
    except Exception as e:  # noqa: BLE001
        return ("ERR", type(e).__name__ + ": " + str(e)[:200] + (f" [paths spelt: {SPELLING_NAMES[k]}]" if k in SPELLING_NAMES else ""), None)
    finally:
        if cwd is not None:
            os.chdir(cwd)
    ns, es = rules.observe(arch, [], [])
    return ("OK", sorted(ns), sorted(set(es)), arch)


# --------------------------------------------------------------------------
# model


def enc_stmt(enc, s):
    if s[0] == "import":
        return [0, [enc.name(n) for n in s[1]]]
    if s[0] == "from":
        _, lvl, mod, names = s
        return [1, lvl, [] if mod is None else [enc.name(mod)], [enc.comp(n) for n in names]]
    if s[0] == "other":
        return [3]
    return [2, [enc_stmt(enc, c) for c in s[2]]]


def enc_tree(enc, root, dirs, files):
    """Children of the root directory as fsnode sx."""
    def node(path):
        if path in files:
            v = files[path]
            return [0, enc.comp(path[-1]), v["py"], [enc_stmt(enc, s) for s in v["body"]]]
        kids = sorted([d for d in dirs if d[:-1] == path] + [f for f in files if f[:-1] == path])
        return [1, enc.comp(path[-1]), [node(k) for k in kids]]
    top = sorted([d for d in dirs if len(d) == 2] + [f for f in files if len(f) == 2])
    return [node(k) for k in top]


def model_scan_case(enc, root, dirs, files, mp, excluded_paths=(), exclude_external=True, excluded_ext_names=(), has_ext=False, limit=None):
    """wire case for fn 20; excluded_paths: tuples below root (relative, without the root component)."""
    return [20, [enc.comp(root), enc_tree(enc, root, dirs, files), [enc.comp(c) for c in mp[1:]],
                 [[enc.comp(c) for c in p] for p in excluded_paths], exclude_external,
                 [enc.name(n) for n in excluded_ext_names], has_ext, [] if limit is None else [limit]]]


def dec_scan(enc, m):
    if m is None or m == common.SX_ERR:
        return None
    if m[0] == 0:
        return ("NONE",)
    return ("OK", sorted(enc.unname(n) for n in m[2]), sorted({(enc.unname(a), enc.unname(b)) for a, b in m[3]}), sorted(enc.unname(n) for n in m[1]))


def excluded_table(base, dirs, files, patterns_regex):
    """Which paths of the tree the real regexes exclude (oracle on the real absolute path strings).
    Returns tuples below root (without the root component)."""
    out = []
    cps = [re.compile(p) for p in patterns_regex]
    for p in list(dirs) + list(files):
        is_file = p in files
        suffix = (".py" if files[p]["py"] else ".txt") if is_file else ""
        s = os.path.join(base, *p[:-1], p[-1] + suffix) if is_file else os.path.join(base, *p)
        if any(re.match(cp, s) for cp in cps):
            out.append(tuple(p[1:]))
    return out


def harmless_case_exclusions(rng, dirs, files):
    """Exclusion patterns that differ from names of the tree ONLY in case: patterns are matched character by character, so
    they exclude nothing (the default __pycache__ pattern is kept)."""
    names = {p[-1] for p in list(dirs) + list(files)}
    cands = sorted(n for n in names if n.swapcase() != n and n.swapcase() not in names)
    if not cands:
        return None
    pick = rng.sample(cands, min(len(cands), 2))
    pats = ["*__pycache__*"]
    for n in pick:
        pats.append(rng.choice(["*" + n.swapcase() + ".py", "*/" + n.swapcase(), "*" + n.swapcase() + "*"]))
    # a pattern may still hit another name of the tree by accident (e.g. *A* and 'bA'): only keep patterns that match no path text
    import re as _re
    conv = rules.partial_match_converter()
    texts = ["/" + "/".join(p) for p in dirs] + ["/" + "/".join(p) + (".py" if files[p]["py"] else ".txt") for p in files]
    pats = [pt for pt in pats if pt == "*__pycache__*" or not any(_re.match(conv(pt), "/dev/shm/0/0" + t) for t in texts)]
    return tuple(pats) if len(pats) > 1 else None


def import_statements(body):
    """the import statements of a file at any nesting depth"""
    out = []
    for s0 in body:
        if s0[0] in ("import", "from"):
            out.append(s0)
        elif s0[0] == "block":
            out.extend(import_statements(s0[2]))
    return out


def has_ambiguous_imports(dirs, files, mp):
    """An absolute import name that can be read both ways - fully qualified from the root AND relative to
    module_path's parent, both readings naming existing modules of the tree - is ambiguous.  The properties
    speak of imports 'written either fully qualified ... or relative to module_path's parent'; a name that is
    both is outside their claims (the code prefers the parent-relative reading)."""
    if len(mp) <= 1:
        return False
    allmods = {dotted(d) for d in dirs} | {dotted(f) for f, v in files.items() if v["py"]}
    ap = dotted(mp[:-1])

    def names_of(s0):
        if s0[0] == "import":
            return list(s0[1])
        if s0[0] == "from" and s0[1] == 0:
            return [s0[2]] + [s0[2] + "." + nmx for nmx in s0[3]]
        if s0[0] == "block":
            return [x for c0 in s0[2] for x in names_of(c0)]
        return []
    for f0, v0 in files.items():
        if v0["py"] and f0[:len(mp)] == mp:
            for s0 in v0["body"]:
                for nm0 in names_of(s0):
                    if nm0 in allmods and ap + "." + nm0 in allmods:
                        return True
    return False


def cleanup(base):
    base = Path(base)
    shutil.rmtree(base.parent if base.name == AWKWARD_PARENT else base, ignore_errors=True)
