"""Confirm a sub-agent's seeded change and file it under /verif/seeded/<name>/.
usage: confirm_seed.py <PID> <srcdir (/tmp/seed_Cxx)> <worktree (/tmp/wt_Cxx)> <name> [checks,comma]"""
import json, os, shutil, subprocess, sys
from pathlib import Path

pid, src, wt, name = sys.argv[1:5]
checks = sys.argv[5] if len(sys.argv) > 5 else pid
VERIF = Path("/verif")
out = VERIF / "seeded" / name
out.mkdir(parents=True, exist_ok=True)
if Path(src).resolve() != out.resolve():
    shutil.copy(Path(src) / "patch.diff", out / "patch.diff")
    shutil.copy(Path(src) / "demo.py", out / "demo.py")
notes = (Path(src) / "notes.txt").read_text() if (Path(src) / "notes.txt").exists() else ""
prev = json.loads((out / "meta.json").read_text()) if (out / "meta.json").exists() else None
meta = {"property": pid, "source": "independent sub-agent given only the property text and a scratch worktree", "needs_to_manifest": notes.strip(), "ran": {}}

def sh(cmd, **kw):
    return subprocess.run(cmd, shell=True, capture_output=True, text=True, **kw)

r = sh(f"git -C /repo apply --check {out}/patch.diff")
meta["ran"]["applies_to_repo_head"] = r.returncode == 0
r = sh(f"/venv/bin/python /verif/harness/baseline_check.py {wt}")
meta["ran"]["suite_with_change"] = r.stdout.strip().split("\n")[0]
r1 = sh(f"PYTHONPATH={wt}/src /venv/bin/python {out}/demo.py")
r0 = sh(f"PYTHONPATH=/repo/src /venv/bin/python {out}/demo.py")
meta["ran"]["demo_with_change_exit"] = r1.returncode
meta["ran"]["demo_without_change_exit"] = r0.returncode
meta["ran"]["demo_output_with_change"] = (r1.stdout + r1.stderr)[-600:]
ok = meta["ran"]["applies_to_repo_head"] and "missing=0" in meta["ran"]["suite_with_change"] and r1.returncode == 1 and r0.returncode == 0
meta["confirmed"] = ok
print(json.dumps(meta["ran"], indent=1)[:1500])
if ok:
    r = sh(f"/venv/bin/python /verif/harness/seedtest.py {out}/patch.diff --checks {checks}", cwd="/verif")
    print(r.stdout[-2500:])
    summ = [l for l in r.stdout.split("\n") if l.startswith("SUMMARY ")]
    meta["checks_result"] = json.loads(summ[0][8:]) if summ else {}
    meta["caught_by"] = [k for k, v in meta.get("checks_result", {}).items() if v["kind"] != "silent"]
if prev and prev.get("checks_result") and prev.get("checks_result") != meta.get("checks_result"):
    meta["earlier_runs"] = prev.get("earlier_runs", []) + [{"checks_result": prev["checks_result"], "caught_by": prev.get("caught_by")}]
elif prev and prev.get("earlier_runs"):
    meta["earlier_runs"] = prev["earlier_runs"]
(out / "meta.json").write_text(json.dumps(meta, indent=1))
print("confirmed" if ok else "NOT CONFIRMED", "caught_by:", meta.get("caught_by"))
